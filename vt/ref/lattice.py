"""Reference model of Lattice semantics (NumPy float64, no tfl code).

Vertex numbering: kernel row r <-> multi-index np.unravel_index(r, sizes)
(row-major; the documented '[2,3] -> o-o-o / o-o-o' layout of the layer).

Every constraint family is expressed as rows of a matrix A with the meaning
`A @ w >= 0`; slack = A @ K for a kernel matrix K of shape (n, B) (columns are
independent cases).
"""
import itertools

import numpy as np


def nvert(sizes):
  n = 1
  for s in sizes:
    n *= int(s)
  return n


def idx(sizes):
  return np.arange(nvert(sizes)).reshape(tuple(sizes))


def _row(n, pairs):
  r = np.zeros(n)
  for i, c in pairs:
    r[int(i)] += c
  return r


def _others(sizes, dims):
  """Iterates over multi-indices of all dims not in `dims` (as dict dim->i)."""
  rest = [d for d in range(len(sizes)) if d not in dims]
  for combo in itertools.product(*[range(sizes[d]) for d in rest]):
    yield dict(zip(rest, combo))


def _at(I, fixed, **kw):
  """Flat index of vertex given dict dim->index pieces."""
  pos = dict(fixed)
  pos.update({int(k[1:]): v for k, v in kw.items()})
  return I[tuple(pos[d] for d in range(I.ndim))]


def rows_monotonicity(sizes, dim):
  """w[.., i+1, ..] - w[.., i, ..] >= 0 along dim."""
  I, n = idx(sizes), nvert(sizes)
  rows, labels = [], []
  for fixed in _others(sizes, [dim]):
    for i in range(sizes[dim] - 1):
      a = _at(I, fixed, **{"d%d" % dim: i})
      b = _at(I, fixed, **{"d%d" % dim: i + 1})
      rows.append(_row(n, [(b, 1), (a, -1)]))
      labels.append(("mono", dim, i, tuple(sorted(fixed.items()))))
  return np.array(rows).reshape(-1, n), labels


def rows_unimodality(sizes, dim, direction):
  """valley (+1): non-increasing up to the centre vertex size//2, then
  non-decreasing; peak (-1): the opposite."""
  I, n = idx(sizes), nvert(sizes)
  rows, labels = [], []
  c = sizes[dim] // 2
  for fixed in _others(sizes, [dim]):
    for i in range(sizes[dim] - 1):
      a = _at(I, fixed, **{"d%d" % dim: i})
      b = _at(I, fixed, **{"d%d" % dim: i + 1})
      first = i < c
      # valley: first part decreasing (a >= b), second increasing (b >= a)
      sgn = 1.0 if (first == (direction == 1)) else -1.0
      rows.append(_row(n, [(a, sgn), (b, -sgn)]))
      labels.append(("unimodal", dim, i, tuple(sorted(fixed.items()))))
  return np.array(rows).reshape(-1, n), labels


def rows_edgeworth(sizes, main, cond, direction):
  """direction * [(w[i+1,j+1]-w[i,j+1]) - (w[i+1,j]-w[i,j])] >= 0."""
  I, n = idx(sizes), nvert(sizes)
  rows, labels = [], []
  km, kc = "d%d" % main, "d%d" % cond
  for fixed in _others(sizes, [main, cond]):
    for i in range(sizes[main] - 1):
      for j in range(sizes[cond] - 1):
        p = lambda a, b: _at(I, fixed, **{km: a, kc: b})
        s = float(direction)
        rows.append(_row(n, [(p(i + 1, j + 1), s), (p(i, j + 1), -s),
                             (p(i + 1, j), -s), (p(i, j), s)]))
        labels.append(("edgeworth", main, cond, i, j, tuple(sorted(fixed.items()))))
  return np.array(rows).reshape(-1, n), labels


def rows_trapezoid(sizes, main, cond, direction):
  """Range over the main feature grows with trust: at main=0 the weight is
  non-increasing in cond (direction +1), at main=max non-decreasing."""
  I, n = idx(sizes), nvert(sizes)
  rows, labels = [], []
  km, kc = "d%d" % main, "d%d" % cond
  mx = sizes[main] - 1
  for fixed in _others(sizes, [main, cond]):
    for j in range(sizes[cond] - 1):
      p = lambda a, b: _at(I, fixed, **{km: a, kc: b})
      s = float(direction)
      rows.append(_row(n, [(p(0, j), s), (p(0, j + 1), -s)]))
      labels.append(("trapezoid-low", main, cond, j, tuple(sorted(fixed.items()))))
      rows.append(_row(n, [(p(mx, j + 1), s), (p(mx, j), -s)]))
      labels.append(("trapezoid-high", main, cond, j, tuple(sorted(fixed.items()))))
  return np.array(rows).reshape(-1, n), labels


def rows_monotonic_dominance(sizes, dom, weak):
  """Slope along the dominant dim >= slope along the weak dim in every cell:
  w[i+1,j]-w[i,j] >= w[i+1,j+1]-w[i+1,j]  and
  w[i+1,j+1]-w[i,j+1] >= w[i,j+1]-w[i,j]."""
  I, n = idx(sizes), nvert(sizes)
  rows, labels = [], []
  kd, kw = "d%d" % dom, "d%d" % weak
  for fixed in _others(sizes, [dom, weak]):
    for i in range(sizes[dom] - 1):
      for j in range(sizes[weak] - 1):
        p = lambda a, b: _at(I, fixed, **{kd: a, kw: b})
        rows.append(_row(n, [(p(i + 1, j), 2), (p(i, j), -1), (p(i + 1, j + 1), -1)]))
        labels.append(("mdom-lower", dom, weak, i, j, tuple(sorted(fixed.items()))))
        rows.append(_row(n, [(p(i + 1, j + 1), 1), (p(i, j), 1), (p(i, j + 1), -2)]))
        labels.append(("mdom-upper", dom, weak, i, j, tuple(sorted(fixed.items()))))
  return np.array(rows).reshape(-1, n), labels


def rows_range_dominance(sizes, dom, weak):
  """(w[last,j]-w[0,j]) - (w[i,last]-w[i,0]) >= 0 for every vertex (i,j)."""
  I, n = idx(sizes), nvert(sizes)
  rows, labels = [], []
  kd, kw = "d%d" % dom, "d%d" % weak
  ld, lw = sizes[dom] - 1, sizes[weak] - 1
  for fixed in _others(sizes, [dom, weak]):
    for i in range(sizes[dom]):
      for j in range(sizes[weak]):
        p = lambda a, b: _at(I, fixed, **{kd: a, kw: b})
        rows.append(_row(n, [(p(ld, j), 1), (p(0, j), -1), (p(i, lw), -1), (p(i, 0), 1)]))
        labels.append(("rdom", dom, weak, i, j, tuple(sorted(fixed.items()))))
  return np.array(rows).reshape(-1, n), labels


def rows_joint_monotonicity(sizes, d1, d2):
  """Monotone along the diagonal: w[i+1,j+1] >= (w[i+1,j]+w[i,j+1])/2 >= w[i,j]."""
  I, n = idx(sizes), nvert(sizes)
  rows, labels = [], []
  k1, k2 = "d%d" % d1, "d%d" % d2
  for fixed in _others(sizes, [d1, d2]):
    for i in range(sizes[d1] - 1):
      for j in range(sizes[d2] - 1):
        p = lambda a, b: _at(I, fixed, **{k1: a, k2: b})
        rows.append(_row(n, [(p(i + 1, j + 1), 2), (p(i + 1, j), -1), (p(i, j + 1), -1)]))
        labels.append(("jmono-upper", d1, d2, i, j, tuple(sorted(fixed.items()))))
        rows.append(_row(n, [(p(i + 1, j), 1), (p(i, j + 1), 1), (p(i, j), -2)]))
        labels.append(("jmono-lower", d1, d2, i, j, tuple(sorted(fixed.items()))))
  return np.array(rows).reshape(-1, n), labels


def rows_joint_unimodality(sizes, dims, direction):
  """Valley: at every vertex v != centre c (c_d = size_d // 2), for every
  orthant o in {-1,+1}^k whose neighbours exist, the discrete derivative in
  direction (v - c) is non-negative:
     sum_d (v_d - c_d) * o_d * (w[v + o_d e_d] - w[v]) >= 0.   Peak: <= 0."""
  I, n = idx(sizes), nvert(sizes)
  dims = list(dims)
  rows, labels = [], []
  c = [sizes[d] // 2 for d in dims]
  sgn = 1.0 if direction in ("valley", 1) else -1.0
  for fixed in _others(sizes, dims):
    for v in itertools.product(*[range(sizes[d]) for d in dims]):
      if all(a == b for a, b in zip(v, c)):
        continue
      for offs in itertools.product([-1, 1], repeat=len(dims)):
        pairs, ok, total = [], True, 0.0
        for k, d in enumerate(dims):
          wgt = v[k] - c[k]
          if wgt == 0:
            continue
          nb = list(v)
          nb[k] += offs[k]
          if nb[k] < 0 or nb[k] >= sizes[d]:
            ok = False
            break
          pos = dict(fixed)
          pos.update(dict(zip(dims, nb)))
          pairs.append((I[tuple(pos[q] for q in range(len(sizes)))], sgn * wgt * offs[k]))
          total += wgt * offs[k]
        if not ok or not pairs:
          continue
        pos = dict(fixed)
        pos.update(dict(zip(dims, v)))
        pairs.append((I[tuple(pos[q] for q in range(len(sizes)))], -sgn * total))
        rows.append(_row(n, pairs))
        labels.append(("junimodal", tuple(dims), v, offs, tuple(sorted(fixed.items()))))
  return np.array(rows).reshape(-1, n), labels


def constraint_matrix(sizes, monotonicities=None, unimodalities=None,
                      edgeworth_trusts=None, trapezoid_trusts=None,
                      monotonic_dominances=None, range_dominances=None,
                      joint_monotonicities=None, joint_unimodalities=None):
  """Stacks the rows of all configured families. Returns dict family->(A,labels)."""
  out = {}
  sizes = list(sizes)
  for d, m in enumerate(monotonicities or []):
    if m:
      out[("mono", d)] = rows_monotonicity(sizes, d)
  for d, u in enumerate(unimodalities or []):
    if u:
      out[("unimodal", d)] = rows_unimodality(sizes, d, u)
  for t in edgeworth_trusts or []:
    out[("edgeworth",) + tuple(t)] = rows_edgeworth(sizes, *t)
  for t in trapezoid_trusts or []:
    out[("trapezoid",) + tuple(t)] = rows_trapezoid(sizes, *t)
  for t in monotonic_dominances or []:
    out[("mdom",) + tuple(t)] = rows_monotonic_dominance(sizes, *t)
  for t in range_dominances or []:
    out[("rdom",) + tuple(t)] = rows_range_dominance(sizes, *t)
  for t in joint_monotonicities or []:
    out[("jmono",) + tuple(t)] = rows_joint_monotonicity(sizes, *t)
  for dims, direction in joint_unimodalities or []:
    out[("junimodal", tuple(dims), direction)] = rows_joint_unimodality(
        sizes, dims, direction)
  return out


def stack(fams, keys=None):
  mats = [fams[k][0] for k in fams if keys is None or k in keys]
  if not mats:
    return np.zeros((0, 0))
  return np.concatenate(mats, axis=0)


# ------------------------------------------------------------- interpolation
def clip_to_lattice(x, sizes):
  x = np.asarray(x, dtype=np.float64)
  return np.clip(x, 0.0, np.array(sizes, dtype=np.float64) - 1.0)


def _cell(x, sizes):
  sz = np.array(sizes)
  lower = np.floor(x).astype(np.int64)
  lower = np.minimum(np.maximum(lower, 0), sz - 2)
  return lower, x - lower


def hypercube_weights(x, sizes, clip=True):
  """Interpolation-weight matrix (batch, n) of multilinear interpolation.

  x must be inside the lattice range after optional clipping."""
  x = np.asarray(x, dtype=np.float64)
  if clip:
    x = clip_to_lattice(x, sizes)
  d = len(sizes)
  lower, frac = _cell(x, sizes)
  strides = np.array([nvert(sizes[k + 1:]) for k in range(d)])
  W = np.zeros((x.shape[0], nvert(sizes)))
  rows = np.arange(x.shape[0])
  for corner in itertools.product([0, 1], repeat=d):
    cz = np.array(corner)
    wgt = np.prod(np.where(cz == 1, frac, 1.0 - frac), axis=1)
    flat = ((lower + cz) * strides).sum(axis=1)
    np.add.at(W, (rows, flat), wgt)
  return W


def simplex_weights(x, sizes, clip=True):
  """Weight matrix (batch, n) of sorted-simplex interpolation."""
  x = np.asarray(x, dtype=np.float64)
  if clip:
    x = clip_to_lattice(x, sizes)
  d = len(sizes)
  lower, frac = _cell(x, sizes)
  strides = np.array([nvert(sizes[k + 1:]) for k in range(d)])
  order = np.argsort(-frac, axis=1, kind="stable")
  sfrac = np.take_along_axis(frac, order, axis=1)
  W = np.zeros((x.shape[0], nvert(sizes)))
  rows = np.arange(x.shape[0])
  cur = (lower * strides).sum(axis=1)
  prev = np.ones(x.shape[0])
  for k in range(d):
    np.add.at(W, (rows, cur), prev - sfrac[:, k])
    cur = cur + strides[order[:, k]]
    prev = sfrac[:, k]
  np.add.at(W, (rows, cur), prev)
  return W


def input_grid(sizes, fine=True, outside=True, far=False):
  """Full cartesian grid: vertices, cell interiors, faces, outside both ends; far adds points more
  than one full cell outside the range on both sides."""
  axes = []
  for s in sizes:
    pts = set()
    for v in range(s):
      pts.add(float(v))
    for v in range(s - 1):
      pts.add(v + 0.5)
      if fine:
        pts.add(v + 0.25)
        pts.add(v + 0.75)
    if outside:
      pts.add(-0.5)
      pts.add(s - 0.5)
      if far:
        pts.add(-1.5)
        pts.add(s + 1.25)
    axes.append(sorted(pts))
  return np.array(list(itertools.product(*axes)), dtype=np.float64)
