"""Reference model of PWL calibration semantics (NumPy float64)."""
import numpy as np


def keypoint_outputs(kernel, cyclic=False):
  y = np.cumsum(np.asarray(kernel, dtype=np.float64), axis=0)
  if cyclic:
    y = np.concatenate([y, y[0:1]], axis=0)
  return y


def evaluate(kp, kernel_col, x, cyclic=False):
  """Piecewise-linear interpolation through (kp_i, cumsum(kernel)_i), constant outside."""
  y = keypoint_outputs(np.asarray(kernel_col, dtype=np.float64), cyclic)
  return np.interp(np.asarray(x, dtype=np.float64), np.asarray(kp, dtype=np.float64), y)


def learned_keypoints(kp, logits):
  """Keypoints of 'learned_interior': ends fixed, gaps = softmax(logits)*range."""
  kp = np.asarray(kp, dtype=np.float64)
  z = np.asarray(logits, dtype=np.float64)
  e = np.exp(z - z.max())
  gaps = e / e.sum() * (kp[-1] - kp[0])
  return np.concatenate([[kp[0]], kp[0] + np.cumsum(gaps)])


def input_points(kp, extra=()):
  kp = np.asarray(kp, dtype=np.float64)
  pts = list(kp) + list((kp[1:] + kp[:-1]) / 2) + list(kp[:-1] + (kp[1:] - kp[:-1]) * 0.25)
  span = kp[-1] - kp[0]
  pts += [kp[0] - 0.5 * span, kp[0] - 100.0, kp[-1] + 0.5 * span, kp[-1] + 100.0]
  pts += list(extra)
  return np.array(sorted(set(float(np.float32(p)) for p in pts)))
