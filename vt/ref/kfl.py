"""Reference model of KroneckerFactoredLattice semantics (NumPy float64).

Per unit: kernel w[i, d, t] (vertex i of dimension d in term t), scale s[t], bias b:
  out(x) = b + mean_t( s[t] * prod_d ( sum_i w[i,d,t] * max(0, 1-|x_d - i|) ) )
"""
import itertools

import numpy as np


def hat_weights(x, L):
  """(G,) -> (G, L) 1-D interpolation weights (no clipping)."""
  v = np.arange(L, dtype=np.float64)[None, :]
  return 1.0 - np.minimum(np.abs(np.asarray(x, dtype=np.float64)[:, None] - v), 1.0)


def evaluate(kernel, scale, bias, X, clip=True):
  """kernel (L, dims, terms), scale (terms,), X (G, dims) -> (G,)."""
  kernel = np.asarray(kernel, dtype=np.float64)
  L, dims, terms = kernel.shape
  X = np.asarray(X, dtype=np.float64)
  if clip:
    X = np.clip(X, 0.0, L - 1.0)
  prod = np.ones((X.shape[0], terms))
  for d in range(dims):
    if L == 2 and not clip:
      hw = np.stack([1 - X[:, d], X[:, d]], axis=1)
    else:
      hw = hat_weights(X[:, d], L)
    prod *= hw @ kernel[:, d, :]
  return bias + (prod * np.asarray(scale, dtype=np.float64)[None, :]).mean(axis=1)


def dense_kernel(kernel, scale, bias):
  """Lattice kernel (L**dims,) of the same function: bias + mean_t s_t * outer(w_1t..w_dt)."""
  kernel = np.asarray(kernel, dtype=np.float64)
  L, dims, terms = kernel.shape
  out = np.zeros([L] * dims)
  for t in range(terms):
    o = np.ones([L] * dims)
    for d in range(dims):
      shape = [1] * dims
      shape[d] = L
      o = o * kernel[:, d, t].reshape(shape)
    out += scale[t] * o
  return (bias + out / terms).reshape(-1)


def grid(L, dims, outside=True):
  pts = []
  for v in range(L):
    pts.append(float(v))
  for v in range(L - 1):
    pts.append(v + 0.5)
  if outside:
    pts += [-0.5, L - 0.5]
  pts = sorted(pts)
  return np.array(list(itertools.product(pts, repeat=dims)), dtype=np.float64), pts
