"""Exact Euclidean projection onto {w : A w >= 0} (NumPy float64 reference).

Small systems (m <= 12 rows): exhaustive active-set enumeration, vectorised over
columns. Larger systems: the dual NNLS problem min_{mu>=0} ||A^T mu + w||^2 solved
with Lawson-Hanson (scipy), an exact finite active-set method.
"""
import itertools

import numpy as np


def project_active_set(A, W, eps=1e-9, b=None):
  """A (m, n), W (n, B). Returns P (n, B) = argmin ||x - w|| s.t. A x >= b (b=0 default)."""
  A = np.asarray(A, dtype=np.float64)
  W = np.asarray(W, dtype=np.float64)
  m, n = A.shape
  B = W.shape[1]
  b = np.zeros(m) if b is None else np.asarray(b, dtype=np.float64)
  out = np.full((n, B), np.nan)
  done = np.zeros(B, bool)
  # S = empty set first
  feas = (A @ W - b[:, None]).min(axis=0) >= -eps if m else np.ones(B, bool)
  out[:, feas] = W[:, feas]
  done |= feas
  for r in range(1, m + 1):
    if done.all():
      break
    for S in itertools.combinations(range(m), r):
      if done.all():
        break
      AS = A[list(S)]
      G = AS @ AS.T
      if np.linalg.matrix_rank(G) < r:
        continue
      Ginv = np.linalg.inv(G)
      todo = np.where(~done)[0]
      Wt = W[:, todo]
      mu = Ginv @ (b[list(S)][:, None] - AS @ Wt)   # (r, T); x = w + AS^T mu, need mu >= 0
      X = Wt + AS.T @ mu
      ok = (mu.min(axis=0) >= -eps) & ((A @ X - b[:, None]).min(axis=0) >= -1e-8)
      sel = todo[ok]
      out[:, sel] = X[:, ok]
      done[sel] = True
  if not done.all():
    raise RuntimeError("active-set enumeration did not resolve %d columns" % int((~done).sum()))
  return out


def project_hildreth(A, W, sweeps=200000, tol=1e-11):
  """Textbook Dykstra/Hildreth for half-spaces {a_i.x >= 0}, float64, vectorised over columns.

  One set per row, increments kept as one multiplier per (row, column)."""
  A = np.asarray(A, dtype=np.float64)
  X = np.asarray(W, dtype=np.float64).copy()
  m = A.shape[0]
  nrm = (A * A).sum(axis=1)
  lam = np.zeros((m, X.shape[1]))
  for it in range(sweeps):
    change = 0.0
    for i in range(m):
      a = A[i]
      # undo the previous correction of this set, then project again
      z = a @ X - lam[i] * nrm[i]          # a.(x - lam_i a)
      new = np.maximum(0.0, -z / nrm[i])
      delta = new - lam[i]
      if np.any(delta):
        X += np.outer(a, delta)
        change = max(change, float(np.abs(delta).max()))
        lam[i] = new
    if change < tol:
      break
  return X


def project(A, W):
  A = np.asarray(A, dtype=np.float64)
  if A.shape[0] == 0:
    return np.asarray(W, dtype=np.float64).copy()
  if A.shape[0] <= 10:
    return project_active_set(A, W)
  return project_hildreth(A, W)
