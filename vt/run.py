"""Entry point:  python -m vt.run C01 [--tier quick|thorough] [--replay file]."""
import argparse
import importlib
import json
import os
import sys
import traceback


def main():
  ap = argparse.ArgumentParser()
  ap.add_argument("pid")
  ap.add_argument("--tier", default=os.environ.get("VERIF_TIER", "quick"),
                  choices=["quick", "thorough"])
  ap.add_argument("--replay", default=None)
  ap.add_argument("--budget", type=float, default=None,
                  help="wall-clock cap in seconds (reported as a cap if hit)")
  args = ap.parse_args()
  try:
    seed = int(os.environ.get("VERIF_SEED", "0"))
  except ValueError:
    seed = 0
  os.environ["VERIF_SEED"] = str(seed)
  os.environ["VERIF_TIER"] = args.tier

  from vt.core import bind, ctx as ctxmod
  bind.bind(threads=4 if args.replay else 2)
  pid = args.pid.upper()
  mod = importlib.import_module("vt.checks.%s" % pid.lower())

  if args.replay:
    rec = json.load(open(args.replay))
    res = mod.replay(rec["case"])
    if res:
      print("REPLAY property=%s VIOLATED: %s" % (pid, res))
      print("VIOLATION property=%s replay=%s" % (pid, args.replay))
      return 1
    print("REPLAY property=%s holds on this case" % pid)
    return 0

  c = ctxmod.Ctx(pid, args.tier, seed, getattr(mod, "LEVEL", "exploration"))
  c.budget_s = args.budget
  if c.budget_s is None and args.tier == "thorough":
    # thorough tiers stop handing out new items after this many seconds; what was skipped is
    # reported as a cap in the evidence (exhaustive=false). VT_THOROUGH_BUDGET=0 removes the limit.
    b = float(os.environ.get("VT_THOROUGH_BUDGET", "2400"))
    c.budget_s = b if b > 0 else None
  try:
    mod.run(c)
  except Exception:  # pylint: disable=broad-except
    traceback.print_exc()
    print("HARNESS-ERROR property=%s (not a verdict)" % pid)
    return 2
  return ctxmod.finish(c, mod, bind.repo_root())


if __name__ == "__main__":
  sys.exit(main())
