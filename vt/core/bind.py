"""Binds the checks to the code under test: /repo's working tree (or $VT_REPO)."""
import os
import sys

_STATE = {}


def repo_root():
  return os.path.realpath(os.environ.get("VT_REPO", "/repo"))


def bind(threads=1):
  """Imports tensorflow + tensorflow_lattice from the selected tree, once."""
  if "tfl" in _STATE:
    return _STATE["tf"], _STATE["tfl"]
  root = repo_root()
  os.environ.setdefault("TF_CPP_MIN_LOG_LEVEL", "3")
  os.environ.setdefault("TF_ENABLE_ONEDNN_OPTS", "0")
  os.environ.setdefault("CUDA_VISIBLE_DEVICES", "")
  os.environ.setdefault("TENSORFLOW_LATTICE_VERIF", "1")
  if root in sys.path:
    sys.path.remove(root)
  sys.path.insert(0, root)
  import logging
  logging.getLogger("tensorflow").setLevel(logging.ERROR)
  import absl.logging
  absl.logging.set_verbosity(absl.logging.ERROR)
  # TF prints CUDA probing noise to fd 2 while importing; hide only that.
  saved = os.dup(2)
  devnull = os.open(os.devnull, os.O_WRONLY)
  os.dup2(devnull, 2)
  try:
    import tensorflow as tf
    tf.constant(0)
  finally:
    os.dup2(saved, 2)
    os.close(saved)
    os.close(devnull)
  try:
    tf.config.threading.set_intra_op_parallelism_threads(threads)
    tf.config.threading.set_inter_op_parallelism_threads(threads)
  except RuntimeError:
    pass
  import tensorflow_lattice as tfl
  where = os.path.realpath(tfl.__file__)
  if not where.startswith(root + os.sep):
    sys.stderr.write("BINDING ERROR: tensorflow_lattice imported from %s, "
                     "expected under %s\n" % (where, root))
    sys.exit(2)
  tf.get_logger().setLevel("ERROR")
  # Own the global random sources (TF_DETERMINISTIC_OPS requires a seed anyway).
  import numpy as np
  try:
    seed = int(os.environ.get("VERIF_SEED", "0"))
  except ValueError:
    seed = 0
  tf.random.set_seed(seed)
  np.random.seed(seed)
  _STATE["tf"], _STATE["tfl"] = tf, tfl
  return tf, tfl
