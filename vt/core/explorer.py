"""E2: explicit-state breadth-first explorer over REAL transition functions.

A state is plain data (anything `canon` can turn into a hashable key) that the
caller can restore into its live objects. `step(state, action)` must restore
`state` into the live object, call the real code for `action`, and read the
successor state back. The invariant is evaluated in every reached state.
"""
import collections


class Result(object):

  def __init__(self):
    self.states = 0
    self.transitions = 0
    self.max_depth = 0
    self.exhausted = True   # frontier empty or depth bound reached without caps
    self.violations = []    # (history, state, message)
    self.histories = {}     # canon key -> action history reaching it first
    self.edges = []         # (src_key, action, dst_key) (optional, small runs)
    self.outcomes = collections.Counter()


def bfs(inits, enabled, step, canon, invariant, max_depth, max_states=None,
        keep_edges=False, stop_on_violation_classes=50, over_budget=None):
  """Breadth-first search.

  inits: list of (state, label) start states (initial AND hostile states).
  enabled(state) -> iterable of actions (finite menu).
  step(state, action) -> successor state (real code inside).
  canon(state) -> hashable key (only merges states with identical futures).
  invariant(state, history) -> None or message.
  """
  res = Result()
  seen = {}
  frontier = collections.deque()
  for st, label in inits:
    k = canon(st)
    if k in seen:
      continue
    seen[k] = (("init", label),)
    res.histories[k] = seen[k]
    msg = invariant(st, seen[k])
    if msg:
      res.violations.append((seen[k], st, msg))
    frontier.append((st, seen[k], 0))
  while frontier:
    st, hist, depth = frontier.popleft()
    res.max_depth = max(res.max_depth, depth)
    if depth >= max_depth:
      continue
    if over_budget is not None and over_budget():
      res.exhausted = False
      break
    for act in enabled(st):
      nxt = step(st, act)
      res.transitions += 1
      k = canon(nxt)
      if keep_edges:
        res.edges.append((canon(st), act, k))
      if k in seen:
        continue
      h2 = hist + (act,)
      seen[k] = h2
      msg = invariant(nxt, h2)
      if msg:
        res.violations.append((h2, nxt, msg))
        if len(res.violations) >= stop_on_violation_classes:
          res.states = len(seen)
          res.exhausted = False
          return res
      if max_states is not None and len(seen) >= max_states:
        res.exhausted = False
        res.states = len(seen)
        return res
      frontier.append((nxt, h2, depth + 1))
  res.states = len(seen)
  res.histories = seen
  return res
