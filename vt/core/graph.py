"""Graph-mode twin of an eager layer call.

Keras fit / predict / functional models trace layer.call with an unknown batch dimension; code that
is fine eagerly can raise there (static shapes) or compute something else (Python state mutated in a
loop body that is traced once). graph_msg returns a message if the traced call raises or disagrees."""
import numpy as np

from vt.core import bind


def graph_msg(layer, inputs, rtol=1e-5, atol=1e-6):
  tf, _ = bind.bind()
  is_list = isinstance(inputs, (list, tuple))
  xs = [tf.convert_to_tensor(x) for x in (inputs if is_list else [inputs])]
  sig = [tf.TensorSpec([None] + list(x.shape[1:]), x.dtype) for x in xs]
  try:
    if is_list:
      fn = tf.function(lambda *t: layer(list(t)), input_signature=sig)
      g = fn(*xs)
      e = layer(list(xs))
    else:
      fn = tf.function(lambda t: layer(t), input_signature=sig)
      g = fn(xs[0])
      e = layer(xs[0])
  except Exception as ex:  # pylint: disable=broad-except
    return "call traced with an unknown batch size raises %s: %s" % (type(ex).__name__, str(ex)[:160])
  gl = list(g) if isinstance(g, (list, tuple)) else [g]
  el = list(e) if isinstance(e, (list, tuple)) else [e]
  if len(gl) != len(el):
    return "graph-mode call returns %d tensors, eager call %d" % (len(gl), len(el))
  for a, b in zip(gl, el):
    a, b = np.asarray(a), np.asarray(b)
    if a.shape != b.shape or not np.allclose(a, b, rtol=rtol, atol=atol, equal_nan=True):
      return "graph-mode call differs from the eager call (max %.4g)" % (
          np.abs(a - b).max() if a.shape == b.shape else -1)
  return None
