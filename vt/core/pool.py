"""Spawn-based process pool; every worker imports TF once and takes whole items."""
import concurrent.futures as cf
import importlib
import multiprocessing as mp
import os
import traceback

from vt.core import ctx as ctxmod


def _init(env):
  os.environ.update(env)
  from vt.core import bind
  bind.bind(threads=1)


def _work(args):
  modname, funcname, pid, tier, seed, level, budget, t0, items = args
  mod = importlib.import_module(modname)
  func = getattr(mod, funcname)
  c = ctxmod.Ctx(pid, tier, seed, level)
  c.budget_s, c.t0 = budget, t0
  for it in items:
    if c.over_budget():
      c.cap("time budget %ss reached; remaining items of this worker skipped"
            % budget)
      break
    try:
      func(c, it)
    except Exception:  # pylint: disable=broad-except
      c.violation({"kind": "harness-or-library-exception",
                   "where": "%s.%s" % (modname, funcname)},
                  {"item": ctxmod.jsonable(it)},
                  "exception while exploring item %r:\n%s" %
                  (it, traceback.format_exc()[-1500:]))
  return c.export()


def pmap(ctx, modname, funcname, items, workers=None, chunk=None):
  """Runs module.func(child_ctx, item) for all items; merges into ctx."""
  items = list(items)
  if not items:
    return
  workers = workers or min(14, max(1, (os.cpu_count() or 2) - 2))
  workers = min(workers, len(items))
  if workers <= 1:
    ctx.merge(_work((modname, funcname, ctx.pid, ctx.tier, ctx.seed, ctx.level,
                     ctx.budget_s, ctx.t0, items)))
    return
  if chunk is None:
    chunk = max(1, len(items) // (workers * 4))
  # Interleave so heavy neighbouring items spread over workers.
  chunks = [items[i:i + chunk] for i in range(0, len(items), chunk)]
  env = {k: v for k, v in os.environ.items()
         if k.startswith(("VT_", "VERIF_", "TF_", "PYTHON", "TENSORFLOW_", "CUDA_"))}
  with cf.ProcessPoolExecutor(max_workers=workers,
                              mp_context=mp.get_context("spawn"),
                              initializer=_init, initargs=(env,)) as ex:
    futs = [ex.submit(_work, (modname, funcname, ctx.pid, ctx.tier, ctx.seed,
                              ctx.level, ctx.budget_s, ctx.t0, ch))
            for ch in chunks]
    for f in futs:
      ctx.merge(f.result())
