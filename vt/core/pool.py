"""Spawn-based process pool; every worker imports TF once and takes whole items."""
import importlib
import multiprocessing as mp
import os
import traceback

from vt.core import ctx as ctxmod


def _init(env):
  os.environ.update(env)
  from vt.core import bind
  bind.bind(threads=1)


def _work(args):
  modname, funcname, pid, tier, seed, level, budget, t0, items = args
  mod = importlib.import_module(modname)
  func = getattr(mod, funcname)
  c = ctxmod.Ctx(pid, tier, seed, level)
  c.budget_s, c.t0 = budget, t0
  for it in items:
    if c.over_budget():
      c.cap("time budget %ss reached; remaining items of this worker skipped"
            % budget)
      break
    try:
      func(c, it)
    except Exception:  # pylint: disable=broad-except
      c.violation({"kind": "harness-or-library-exception",
                   "where": "%s.%s" % (modname, funcname)},
                  {"item": ctxmod.jsonable(it)},
                  "exception while exploring item %r:\n%s" %
                  (it, traceback.format_exc()[-1500:]))
  return c.export()


def _worker_main(env, conn):
  """Worker process: takes one chunk at a time from the parent over its own pipe."""
  try:
    _init(env)
  except BaseException:  # pylint: disable=broad-except
    conn.send(("init-error", traceback.format_exc()[-1500:]))
    return
  while True:
    try:
      msg = conn.recv()
    except (EOFError, OSError):
      return
    if msg is None:
      return
    try:
      res = ("done", _work(msg))
    except BaseException:  # pylint: disable=broad-except
      res = ("error", traceback.format_exc()[-1500:])
    conn.send(res)


class _Worker(object):

  def __init__(self, mpctx, env):
    self.conn, child = mpctx.Pipe()
    self.proc = mpctx.Process(target=_worker_main, args=(env, child), daemon=True)
    self.proc.start()
    child.close()
    self.idx = None

  def stop(self):
    try:
      self.conn.send(None)
    except (OSError, ValueError, BrokenPipeError):
      pass
    self.proc.join(timeout=10)
    if self.proc.is_alive():
      self.proc.terminate()
    self.conn.close()


def pmap(ctx, modname, funcname, items, workers=None, chunk=None):
  """Runs module.func(child_ctx, item) for all items; merges into ctx.

  The parent hands chunks to worker processes over per-worker pipes, so it always
  knows which chunk a worker holds. A worker that dies (abort / segfault inside the
  library, OOM kill) is replaced; its chunk is re-run item by item, and an item whose
  process dies twice in a row when run alone is recorded as a violation
  (kind=worker-process-died) instead of aborting the whole check."""
  from multiprocessing.connection import wait
  import collections
  items = list(items)
  if not items:
    return
  workers = workers or min(14, max(1, (os.cpu_count() or 2) - 2))
  workers = min(workers, len(items))
  if workers <= 1:
    ctx.merge(_work((modname, funcname, ctx.pid, ctx.tier, ctx.seed, ctx.level,
                     ctx.budget_s, ctx.t0, items)))
    return
  if chunk is None:
    chunk = max(1, len(items) // (workers * 4))
  chunks = [items[i:i + chunk] for i in range(0, len(items), chunk)]
  env = {k: v for k, v in os.environ.items()
         if k.startswith(("VT_", "VERIF_", "TF_", "PYTHON", "TENSORFLOW_", "CUDA_"))}
  mpctx = mp.get_context("spawn")

  def args_for(ch):
    return (modname, funcname, ctx.pid, ctx.tier, ctx.seed, ctx.level, ctx.budget_s, ctx.t0, ch)

  todo = collections.deque(range(len(chunks)))
  deaths = collections.Counter()
  pool = [_Worker(mpctx, env) for _ in range(workers)]

  def assign(w):
    if todo:
      w.idx = todo.popleft()
      try:
        w.conn.send(args_for(chunks[w.idx]))
      except (OSError, ValueError, BrokenPipeError):
        pass  # the death is noticed through the sentinel below
    else:
      w.idx = None

  def died(w, why):
    idx = w.idx
    w.idx = None
    try:
      w.conn.close()
    except OSError:
      pass
    w.proc.join(timeout=5)
    pool.remove(w)
    if idx is not None:
      ch = chunks[idx]
      if len(ch) > 1:
        # isolate: every item of the chunk becomes its own chunk
        for it in ch:
          chunks.append([it])
          todo.append(len(chunks) - 1)
      else:
        deaths[idx] += 1
        if deaths[idx] < 2:
          todo.appendleft(idx)
        else:
          ctx.violation({"kind": "worker-process-died", "where": "%s.%s" % (modname, funcname)},
                        {"item": ctxmod.jsonable(ch[0])},
                        "the process exploring item %r died twice in a row when the item was run "
                        "alone (%s): abort / crash inside the library" % (ch[0], why))
    nw = _Worker(mpctx, env)
    pool.append(nw)
    assign(nw)

  try:
    for w in list(pool):
      assign(w)
    while any(w.idx is not None for w in pool):
      busy = [w for w in pool if w.idx is not None]
      ready = wait([w.conn for w in busy] + [w.proc.sentinel for w in busy], timeout=10)
      for w in busy:
        if w not in pool:
          continue
        if w.conn in ready:
          try:
            kind, payload = w.conn.recv()
          except (EOFError, OSError):
            died(w, "exit code %s" % w.proc.exitcode)
            continue
          if kind == "done":
            ctx.merge(payload)
          elif kind == "init-error":
            raise RuntimeError("worker could not initialise:\n" + payload)
          else:
            ctx.violation({"kind": "harness-or-library-exception", "where": "%s.%s" % (modname, funcname)},
                          {"item": ctxmod.jsonable(chunks[w.idx][0])}, payload)
          assign(w)
        elif w.proc.sentinel in ready:
          # drained pipe and dead process
          if w.conn.poll():
            continue  # a result is still in the pipe: handled on the next round
          died(w, "exit code %s" % w.proc.exitcode)
  finally:
    for w in pool:
      w.stop()
