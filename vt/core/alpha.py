"""Alphabets and exhaustive word enumeration."""
import itertools

import numpy as np

A2 = (0.0, 1.0)
A3 = (-1.0, 0.0, 1.0)
A5 = (-2.0, -1.0, 0.0, 1.0, 2.0)
A6 = (-2.0, -1.0, 0.0, 0.5, 1.0, 3.0)

IMAGES = ((1.0, 0.0), (1e3, 0.0), (1e-3, 0.0), (1.0, 5.0), (1.0, -5.0))


def words(alphabet, n):
  """All words of alphabet^n as an array of shape (n, len(alphabet)**n).

  Column c is the c-th word in lexicographic order (simplest-first when the
  alphabet is ordered simplest-first)."""
  a = np.asarray(alphabet, dtype=np.float64)
  k = len(a)
  total = k ** n
  cols = np.arange(total)
  out = np.empty((n, total), dtype=np.float64)
  for i in range(n):
    out[n - 1 - i] = a[(cols // (k ** i)) % k]
  return out


def word_blocks(alphabet, n, block=65536):
  """Streams all words of alphabet^n as blocks (n, <=block)."""
  a = np.asarray(alphabet, dtype=np.float64)
  k = len(a)
  total = k ** n
  for start in range(0, total, block):
    cols = np.arange(start, min(total, start + block))
    out = np.empty((n, len(cols)), dtype=np.float64)
    for i in range(n):
      out[n - 1 - i] = a[(cols // (k ** i)) % k]
    yield out


def images(K, imgs=IMAGES):
  """Concatenates the affine images s*K+t column-wise."""
  return np.concatenate([s * K + t for s, t in imgs], axis=1)


def rotate(seq, seed):
  """Rotates the visiting order by the seed; never removes an element."""
  seq = list(seq)
  if not seq:
    return seq
  r = seed % len(seq)
  return seq[r:] + seq[:r]


def all_dags(n):
  """All labelled DAGs on n nodes as tuples of edges (i, j)."""
  pairs = [(i, j) for i in range(n) for j in range(n) if i != j]
  out = []
  for mask in range(1 << len(pairs)):
    edges = [pairs[b] for b in range(len(pairs)) if mask >> b & 1]
    if is_acyclic(n, edges):
      out.append(tuple(edges))
  return out


def is_acyclic(n, edges):
  indeg = [0] * n
  adj = [[] for _ in range(n)]
  for a, b in edges:
    adj[a].append(b)
    indeg[b] += 1
  stack = [i for i in range(n) if indeg[i] == 0]
  seen = 0
  while stack:
    v = stack.pop()
    seen += 1
    for w in adj[v]:
      indeg[w] -= 1
      if indeg[w] == 0:
        stack.append(w)
  return seen == n
