"""Run context: coverage accounting, violation classes, evidence, known findings.

One Ctx per check run in the parent process; worker processes get child
contexts whose exported content is merged back (see pool.py).
"""
import collections
import hashlib
import json
import os
import subprocess
import sys
import time

import numpy as np

VERIF_ROOT = os.path.dirname(os.path.dirname(os.path.dirname(os.path.abspath(__file__))))


def out_root():
  """Where evidence/ and replays/ are written. MANIFEST commands never set VT_OUT (=> /verif);
  the mutation / seeded-change drivers point it at a scratch directory."""
  return os.environ.get("VT_OUT") or VERIF_ROOT
MAX_CLASSES = 20


def jsonable(o):
  """Converts numpy containers/scalars into plain JSON values."""
  if isinstance(o, dict):
    return {str(k): jsonable(v) for k, v in o.items()}
  if isinstance(o, (list, tuple)):
    return [jsonable(v) for v in o]
  if isinstance(o, np.ndarray):
    return jsonable(o.tolist())
  if isinstance(o, (np.floating,)):
    return float(o)
  if isinstance(o, (np.integer,)):
    return int(o)
  if isinstance(o, (np.bool_,)):
    return bool(o)
  if isinstance(o, float):
    if o != o:
      return "nan"
    if o in (float("inf"), float("-inf")):
      return "inf" if o > 0 else "-inf"
    return o
  if isinstance(o, (str, int, bool)) or o is None:
    return o
  if isinstance(o, (set, frozenset)):
    return sorted(jsonable(v) for v in o)
  return repr(o)


def sig_key(sig):
  return tuple(sorted((str(k), str(v)) for k, v in sig.items()))


class Ctx(object):
  """Collects what a run covered and what it found."""

  def __init__(self, pid, tier="quick", seed=0, level="exploration"):
    self.pid = pid
    self.tier = tier
    self.seed = seed
    self.level = level
    self.t0 = time.time()
    self.evaluations = 0
    self.nontrivial = 0
    self.states = 0
    self.transitions = 0
    self.traces = 0
    self.samples = []
    self.tables = collections.defaultdict(collections.Counter)
    self.caps = []
    self.assumptions = []
    self.rule = ""
    self.exhaustive = True
    self.notes = []
    # sig_key -> dict(sig=..., case=..., msg=..., count=n)
    self.violations = collections.OrderedDict()
    self.budget_s = None
    self._digests = set()

  # ------------------------------------------------------------------ coverage
  @property
  def quick(self):
    return self.tier == "quick"

  def child(self):
    c = Ctx(self.pid, self.tier, self.seed, self.level)
    c.budget_s = self.budget_s
    c.t0 = self.t0
    return c

  def add(self, evaluations=0, nontrivial=0, states=0, transitions=0, traces=0):
    self.evaluations += int(evaluations)
    self.nontrivial += int(nontrivial)
    self.states += int(states)
    self.transitions += int(transitions)
    self.traces += int(traces)

  def tab(self, table, key, n=1):
    self.tables[table][str(key)] += int(n)

  def sample(self, obj, limit=6):
    if len(self.samples) < limit:
      self.samples.append(jsonable(obj))

  def cap(self, text):
    """Records that a cap stopped an enumeration: the run is not exhaustive."""
    self.exhaustive = False
    if text not in self.caps:
      self.caps.append(text)

  def note(self, text):
    if text not in self.notes:
      self.notes.append(text)

  def elapsed(self):
    return time.time() - self.t0

  def over_budget(self):
    return self.budget_s is not None and self.elapsed() > self.budget_s

  # ---------------------------------------------------------------- violations
  def violation(self, sig, case, msg):
    """Registers a violation; sig is the class signature (dict of str->str)."""
    k = sig_key(sig)
    if k in self.violations:
      self.violations[k]["count"] += 1
      return
    if len(self.violations) >= 4 * MAX_CLASSES:
      self.violations.setdefault(("overflow",), dict(
          sig={"overflow": "more classes than recorded"}, case={}, msg="overflow",
          count=0))["count"] += 1
      return
    self.violations[k] = dict(sig={str(a): str(b) for a, b in sig.items()},
                              case=jsonable(case), msg=str(msg), count=1)

  # --------------------------------------------------------------------- merge
  def export(self):
    return dict(
        evaluations=self.evaluations, nontrivial=self.nontrivial,
        states=self.states, transitions=self.transitions, traces=self.traces,
        samples=self.samples, tables={k: dict(v) for k, v in self.tables.items()},
        caps=self.caps, exhaustive=self.exhaustive, notes=self.notes,
        violations=list(self.violations.values()))

  def merge(self, ex):
    self.add(ex["evaluations"], ex["nontrivial"], ex["states"],
             ex["transitions"], ex["traces"])
    for s in ex["samples"]:
      self.sample(s)
    for t, d in ex["tables"].items():
      for k, n in d.items():
        self.tables[t][k] += n
    for c in ex["caps"]:
      self.cap(c)
    for n in ex["notes"]:
      self.note(n)
    for v in ex["violations"]:
      k = sig_key(v["sig"])
      if k in self.violations:
        self.violations[k]["count"] += v["count"]
      else:
        self.violations[k] = v


# ------------------------------------------------------------- known findings
def load_findings(pid):
  """Parses KNOWN_FINDINGS.txt; returns open findings for property pid."""
  path = os.path.join(VERIF_ROOT, "KNOWN_FINDINGS.txt")
  out = []
  if not os.path.exists(path):
    return out
  for line in open(path):
    line = line.strip()
    if not line or line.startswith("#"):
      continue
    if not line.startswith("finding:"):
      continue  # 'fixed:' entries suppress nothing.
    head, _, text = line[len("finding:"):].partition("::")
    fields = {}
    for tok in head.split():
      if "=" in tok:
        a, b = tok.split("=", 1)
        fields[a] = b
    if fields.get("property") != pid:
      continue
    key = {}
    for kv in fields.get("key", "").split(","):
      if "=" in kv:
        a, b = kv.split("=", 1)
        key[a] = b
    out.append(dict(key=key, witness=fields.get("witness"), text=text.strip()))
  return out


def finding_matches(finding, sig):
  if not finding["key"]:
    return False
  return all(str(sig.get(a)) == b for a, b in finding["key"].items())


def repo_rev(root):
  try:
    rev = subprocess.check_output(["git", "-C", root, "rev-parse", "HEAD"],
                                  stderr=subprocess.DEVNULL).decode().strip()
    dirty = subprocess.check_output(["git", "-C", root, "status", "--porcelain",
                                     "--untracked-files=no"],
                                    stderr=subprocess.DEVNULL).decode().strip()
    return rev + ("+dirty" if dirty else "")
  except Exception:  # pylint: disable=broad-except
    return "unknown"


def finish(ctx, module, repo_root):
  """Writes replays + evidence, prints verdict lines, returns exit code."""
  findings = load_findings(ctx.pid)
  rev = repo_rev(repo_root)
  replay_dir = os.path.join(out_root(), "replays", ctx.pid)
  new, known_hits = [], collections.Counter()
  for v in ctx.violations.values():
    hit = None
    for i, f in enumerate(findings):
      if finding_matches(f, v["sig"]):
        hit = i
        break
    if hit is None:
      new.append(v)
    else:
      known_hits[hit] += v["count"]

  # Known findings: re-run the stored witness so the line reflects this tree.
  for i, f in enumerate(findings):
    status = "not re-run"
    if f["witness"]:
      wpath = os.path.join(VERIF_ROOT, f["witness"])
      try:
        case = json.load(open(wpath))["case"]
        res = module.replay(case)
        status = "witness reproduces" if res else "witness no longer fails"
      except Exception as e:  # pylint: disable=broad-except
        status = "witness replay error %r" % (e,)
    if status == "witness no longer fails" and not known_hits[i]:
      print("NOTE: listed finding no longer observed: property=%s %s" %
            (ctx.pid, f["text"]))
    else:
      print("KNOWN-FINDING: property=%s %s [%s; %d matching cases this run]" %
            (ctx.pid, f["text"], status, known_hits[i]))

  code = 0
  if new:
    os.makedirs(replay_dir, exist_ok=True)
    for n, v in enumerate(new[:MAX_CLASSES]):
      digest = hashlib.sha1(json.dumps(v["sig"], sort_keys=True).encode()
                            ).hexdigest()[:10]
      path = os.path.join(replay_dir, "%s_%s.json" % (ctx.tier, digest))
      with open(path, "w") as fh:
        json.dump(dict(property=ctx.pid, sig=v["sig"], msg=v["msg"],
                       count=v["count"], case=v["case"], repo_rev=rev,
                       tier=ctx.tier, seed=ctx.seed), fh, indent=1)
      print("VIOLATION property=%s replay=%s" % (ctx.pid, path))
      print("  class=%s cases=%d :: %s" % (json.dumps(v["sig"], sort_keys=True),
                                           v["count"], v["msg"][:600]))
    code = 1

  wall = ctx.elapsed()
  cov = dict(
      evaluations=ctx.evaluations,
      distinct_nontrivial=ctx.nontrivial,
      rule=ctx.rule,
      samples=ctx.samples,
      states=ctx.states if ctx.states else ctx.evaluations,
      transitions=ctx.transitions if ctx.transitions else ctx.evaluations,
      traces_validated_against_impl=ctx.traces,
      exhaustive=bool(ctx.exhaustive),
      caps_hit=ctx.caps,
      tables={k: dict(sorted(v.items())) for k, v in sorted(ctx.tables.items())},
      notes=ctx.notes,
      violation_classes=len(new),
      known_finding_cases=int(sum(known_hits.values())),
      repo_rev=rev,
  )
  ev = dict(property_id=ctx.pid, tier=ctx.tier, seed=int(ctx.seed),
            level=ctx.level, coverage=cov, assumptions=ctx.assumptions,
            wall_s=round(wall, 2), violations=len(new))
  epath = os.path.join(out_root(), "evidence", "%s.json" % ctx.pid)
  os.makedirs(os.path.dirname(epath), exist_ok=True)
  with open(epath, "w") as fh:
    json.dump(jsonable(ev), fh, indent=1)
  _validate(epath)
  print("%s tier=%s seed=%d evaluations=%d nontrivial=%d states=%d transitions=%d "
        "exhaustive=%s violations=%d known_cases=%d wall=%.1fs" %
        (ctx.pid, ctx.tier, ctx.seed, ctx.evaluations, ctx.nontrivial,
         cov["states"], cov["transitions"], cov["exhaustive"], len(new),
         cov["known_finding_cases"], wall))
  sys.stdout.flush()
  return code


def _validate(epath):
  schema = "/root/.vp/EVIDENCE.schema.json"
  py = "/opt/veriftools/pyvenv/bin/python"
  if not (os.path.exists(schema) and os.path.exists(py)):
    return
  code = ("import json,jsonschema,sys;"
          "jsonschema.validate(json.load(open(sys.argv[1])),"
          "json.load(open(sys.argv[2])))")
  try:
    r = subprocess.run([py, "-c", code, epath, schema], capture_output=True,
                       timeout=60)
    if r.returncode != 0:
      print("EVIDENCE-SCHEMA-ERROR %s" % r.stderr.decode()[-400:])
  except Exception:  # pylint: disable=broad-except
    pass
