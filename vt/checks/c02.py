"""C02 - Lattice output is exact hypercube/simplex interpolation.

E1 with basis kernels packed in the unit axis: one call of the real layer
returns the complete interpolation-weight matrix for a block of grid points.
"""
import itertools

import numpy as np

from vt.core import alpha, bind, pool, graph
from vt.ref import lattice as rl

ID = "C02"
LEVEL = "exploration"
TOL = 2e-5


def shapes(tier):
  q = [[2], [3], [4], [2, 2], [2, 3], [3, 2], [3, 3], [2, 2, 2], [2, 3, 3],
       [3, 2, 2, 3], [2] * 8]
  if tier == "quick":
    return q
  return q + [[5], [4, 2], [2, 4, 2], [3, 3, 3], [2, 2, 3, 3, 2], [2] * 9, [3, 2] + [2] * 6]


def grid_for(sizes, outside=True):
  d = len(sizes)
  if d >= 8:
    # rank >= 8: {0,.5,1}^d on size-2 dims (all cells faces/vertices/centres),
    # plus every single-coordinate excursion outside and quarter points.
    axes = [[0.0, 0.5, 1.0] if s == 2 else [0.0, 0.5, 1.0, 1.5, float(s - 1)] for s in sizes]
    pts = [list(p) for p in itertools.product(*axes)]
    base = [0.25] * d
    for k in range(d):
      for v in ((-0.5, sizes[k] - 0.5, 0.75, -1.5, sizes[k] + 1.25) if outside else (0.75,)):
        p = list(base)
        p[k] = v
        pts.append(p)
    return np.array(pts, dtype=np.float64)
  fine = rl.nvert(sizes) <= 40
  return rl.input_grid(sizes, fine=fine, outside=outside, far=outside and rl.nvert(sizes) <= 40)


def make_layer(sizes, units, interpolation, clip):
  tf, tfl = bind.bind()
  layer = tfl.layers.Lattice(lattice_sizes=list(sizes), units=units,
                             interpolation=interpolation, clip_inputs=clip,
                             kernel_initializer="zeros")
  d = len(sizes)
  layer.build((None, d) if units == 1 else (None, units, d))
  return layer


def call_layer(layer, X, form, units, lead=False):
  """X: (batch, d) if units==1 else (batch, units, d). Returns (batch, units)."""
  tf, _ = bind.bind()
  X32 = np.asarray(X, dtype=np.float32)
  if lead:
    b = X32.shape[0]
    assert b % 2 == 0
    X32 = X32.reshape((2, b // 2) + X32.shape[1:])
  if form == "tensor":
    out = layer(tf.constant(X32))
  else:
    parts = [tf.constant(X32[..., k:k + 1]) for k in range(X32.shape[-1])]
    out = layer(parts)
  out = np.asarray(out, dtype=np.float64)
  if lead:
    out = out.reshape((-1,) + out.shape[2:])
  return out


def impl_weight_matrix(sizes, interpolation, clip, form, X, lead=False):
  """Real layer with identity kernel (units=n): returns W (batch, n)."""
  n = rl.nvert(sizes)
  layer = make_layer(sizes, n, interpolation, clip)
  layer.kernel.assign(np.eye(n, dtype=np.float32))
  block = max(2, (1 << 24) // (n * n * 2) * 2) if interpolation == "hypercube" else 4096
  outs = []
  for s in range(0, X.shape[0], block):
    xb = X[s:s + block]
    pad = 0
    if lead and xb.shape[0] % 2:
      xb = np.concatenate([xb, xb[-1:]], axis=0)
      pad = 1
    Xu = np.repeat(xb[:, None, :], n, axis=1)
    o = call_layer(layer, Xu, form, n, lead)
    outs.append(o[:o.shape[0] - pad] if pad else o)
  return np.concatenate(outs, axis=0)


def ref_weight_matrix(sizes, interpolation, X, clip):
  if interpolation == "hypercube":
    return rl.hypercube_weights(X, sizes, clip=clip)
  return rl.simplex_weights(X, sizes, clip=clip)


def judge_weights(sizes, interpolation, X, W, Wref):
  """Returns list of (kind, row, message)."""
  out = []
  if W.shape != Wref.shape or not np.all(np.isfinite(W)):
    return [("shape-or-nonfinite", 0, "weights shape %s vs %s" % (W.shape, Wref.shape))]
  err = np.abs(W - Wref).max(axis=1)
  bad = np.where(err > TOL * 5)[0]
  if len(bad):
    r = int(bad[0])
    out.append(("reference", r, "point %s: interpolation weights differ from the "
                "reference by %.4g; impl=%s ref=%s" %
                (X[r].tolist(), err[r], np.round(W[r], 5).tolist(),
                 np.round(Wref[r], 5).tolist())))
  neg = np.where(W.min(axis=1) < -1e-5)[0]
  if len(neg):
    r = int(neg[0])
    out.append(("negative-weight", r, "point %s has weight %.4g < 0" % (X[r].tolist(), W[r].min())))
  sm = np.where(np.abs(W.sum(axis=1) - 1) > 1e-4)[0]
  if len(sm):
    r = int(sm[0])
    out.append(("partition-of-unity", r, "point %s weights sum to %.6g" %
                (X[r].tolist(), W[r].sum())))
  # vertices -> exact one-hot rows
  sz = np.array(sizes)
  isv = np.all((X == np.round(X)) & (X >= 0) & (X <= sz - 1), axis=1)
  strides = np.array([rl.nvert(sizes[k + 1:]) for k in range(len(sizes))])
  for r in np.where(isv)[0]:
    want = int((X[r].astype(int) * strides).sum())
    if not (W[r, want] == 1.0 and np.count_nonzero(W[r]) == 1):
      out.append(("vertex-exact", int(r), "vertex %s does not give exactly its own "
                  "weight: row=%s" % (X[r].tolist(), np.round(W[r], 6).tolist())))
      break
  return out


def replay(case):
  if case["kind"] == "graph":
    layer = make_layer(case["sizes"], 1, case["interpolation"], case["clip"])
    Xg = np.asarray(case["points"], dtype=np.float32)
    return graph.graph_msg(layer, Xg if case["form"] == "tensor" else [Xg[:, k:k + 1] for k in range(Xg.shape[1])])
  sizes, interp, clip, form = case["sizes"], case["interpolation"], case["clip"], case["form"]
  kind = case.get("kind", "weights")
  if kind == "weights":
    X = np.asarray(case["points"], dtype=np.float64)
    W = impl_weight_matrix(sizes, interp, clip, form, X, case.get("lead", False))
    Wref = ref_weight_matrix(sizes, interp, X, clip)
    res = judge_weights(sizes, interp, X, W, Wref)
    return "; ".join(m for _, _, m in res) or None
  if kind == "units1":
    X = np.asarray(case["points"], dtype=np.float64)
    k = np.asarray(case["kernel"], dtype=np.float64)
    layer = make_layer(sizes, 1, interp, clip)
    layer.kernel.assign(k.astype(np.float32)[:, None])
    o = call_layer(layer, X, form, 1)[:, 0]
    ref = ref_weight_matrix(sizes, interp, X, clip) @ k
    err = np.abs(o - ref)
    tol = TOL * 5 * max(1.0, np.abs(k).max())
    if not (err.max() <= tol):
      r = int(err.argmax())
      return "units=1 kernel %s at %s: impl %.6g ref %.6g" % (k.tolist(), X[r].tolist(), o[r], ref[r])
    return None
  if kind == "perunit":
    return _perunit(sizes, interp, clip, form, np.asarray(case["points"], dtype=np.float64))
  if kind == "consequence":
    return _consequences(sizes, interp, form, only=case.get("which"))
  if kind == "agree":
    return _agree(sizes, form)
  raise ValueError(kind)


def _perunit(sizes, interp, clip, form, X):
  """units=2, different points and kernels per unit."""
  n = rl.nvert(sizes)
  k0 = np.arange(n, dtype=np.float64)
  k1 = (np.arange(n, dtype=np.float64)[::-1] ** 2) % 7
  layer = make_layer(sizes, 2, interp, clip)
  layer.kernel.assign(np.stack([k0, k1], axis=1).astype(np.float32))
  X1 = X[::-1].copy()
  Xu = np.stack([X, X1], axis=1)
  o = call_layer(layer, Xu, form, 2)
  r0 = ref_weight_matrix(sizes, interp, X, clip) @ k0
  r1 = ref_weight_matrix(sizes, interp, X1, clip) @ k1
  tol = TOL * 5 * max(1.0, n, k1.max())
  e = np.maximum(np.abs(o[:, 0] - r0), np.abs(o[:, 1] - r1))
  if not (e.max() <= tol):
    r = int(e.argmax())
    return ("units=2 per-unit inputs: row %d points %s / %s -> impl %s, ref %s" %
            (r, X[r].tolist(), X1[r].tolist(), o[r].tolist(), [r0[r], r1[r]]))
  return None


def _agree(sizes, form):
  """hypercube and simplex agree on vertices and axis-parallel edges (impl vs impl)."""
  d = len(sizes)
  pts = []
  for v in itertools.product(*[range(s) for s in sizes]):
    pts.append([float(a) for a in v])
    for k in range(d):
      if v[k] < sizes[k] - 1:
        for f in (0.25, 0.5):
          p = [float(a) for a in v]
          p[k] += f
          pts.append(p)
  if len(pts) > 6000:
    pts = pts[:6000]
  X = np.array(pts)
  Wh = impl_weight_matrix(sizes, "hypercube", True, form, X)
  Ws = impl_weight_matrix(sizes, "simplex", True, form, X)
  e = np.abs(Wh - Ws).max(axis=1)
  if not (e.max() <= TOL * 5):
    r = int(e.argmax())
    return "schemes disagree at %s (vertex/axis-parallel edge) by %.4g" % (X[r].tolist(), e[r])
  return None


def _consequences(sizes, interp, form, only=None):
  """Inheritance clauses on REAL outputs for all qualifying words of A3^n."""
  n = rl.nvert(sizes)
  d = len(sizes)
  K = alpha.words(alpha.A3, n)
  X = rl.input_grid(sizes, fine=(n <= 9), outside=True)
  Xc = rl.clip_to_lattice(X, sizes)
  msgs = []
  for dim in range(d):
    if only and only != "mono%d" % dim:
      continue
    A, _ = rl.rows_monotonicity(sizes, dim)
    sel = (A @ K).min(axis=0) >= 0
    Km = K[:, sel]
    if Km.shape[1] > 4000:
      Km = Km[:, :4000]
    u = Km.shape[1]
    layer = make_layer(sizes, u, interp, True)
    layer.kernel.assign(Km.astype(np.float32))
    Xu = np.repeat(X[:, None, :], u, axis=1)
    o = call_layer(layer, Xu, form, u)  # (batch, u)
    # range clause
    lo, hi = Km.min(axis=0), Km.max(axis=0)
    if (o < lo - 1e-4).any() or (o > hi + 1e-4).any():
      msgs.append("output leaves [min kernel, max kernel] (%s, monotone set dim %d)" % (interp, dim))
    # all ordered pairs differing only in coordinate `dim`
    other = np.delete(X, dim, axis=1)
    keys = {}
    for r in range(X.shape[0]):
      keys.setdefault(tuple(other[r].tolist()), []).append(r)
    for rows in keys.values():
      rows = sorted(rows, key=lambda r: X[r, dim])
      oo = o[rows]  # sorted by coordinate
      # ordered pairs (i<j): oo[j] >= oo[i]; enough & equivalent: running max check
      run = np.maximum.accumulate(oo, axis=0)
      viol = (run - oo).max()
      if viol > 1e-4:
        i = np.unravel_index(np.argmax(run - oo), oo.shape)
        msgs.append("kernel %s monotone along dim %d but output decreases by %.4g "
                    "between points on line %s (coordinate %s), %s" %
                    (Km[:, i[1]].tolist(), dim, viol, X[rows[0]].tolist(),
                     X[rows[i[0]], dim], interp))
        break
  if interp == "hypercube" and d >= 2 and (not only or only == "edgeworth"):
    for main, cond in itertools.permutations(range(d), 2):
      A, _ = rl.rows_edgeworth(sizes, main, cond, 1)
      Am, _ = rl.rows_monotonicity(sizes, main)
      sel = ((A @ K).min(axis=0) >= 0) & ((Am @ K).min(axis=0) >= 0)
      Ke = K[:, sel][:, :3000]
      u = Ke.shape[1]
      layer = make_layer(sizes, u, interp, True)
      layer.kernel.assign(Ke.astype(np.float32))
      Xg = rl.input_grid(sizes, fine=False, outside=False)
      Xu = np.repeat(Xg[:, None, :], u, axis=1)
      o = call_layer(layer, Xu, form, u)
      lut = {tuple(p.tolist()): r for r, p in enumerate(Xg)}
      mains = sorted(set(Xg[:, main].tolist()))
      conds = sorted(set(Xg[:, cond].tolist()))
      worst = 0.0
      for p in Xg:
        if p[main] != mains[0] or p[cond] != conds[0]:
          continue
        for a, b in itertools.combinations(mains, 2):
          prev = None
          for c in conds:
            q1, q2 = p.copy(), p.copy()
            q1[main], q1[cond] = a, c
            q2[main], q2[cond] = b, c
            eff = o[lut[tuple(q2.tolist())]] - o[lut[tuple(q1.tolist())]]
            if prev is not None:
              worst = max(worst, float((prev - eff).max()))
            prev = eff
      if worst > 1e-4:
        msgs.append("Edgeworth-feasible kernels (main %d, cond %d): main-feature effect "
                    "shrinks by %.4g as the conditional coordinate grows" % (main, cond, worst))
        break
  return "; ".join(msgs) or None


def work(ctx, item):
  kind = item["kind"]
  sizes, interp, clip, form = item["sizes"], item["interpolation"], item["clip"], item["form"]
  n = rl.nvert(sizes)
  sig = dict(kind=kind, interpolation=interp, form=form, clip=int(clip),
             lead=int(item.get("lead", False)),
             shape_class=("rank>=8" if len(sizes) >= 8 else "all2" if set(sizes) == {2}
                          else "mixed"))
  if kind == "weights":
    X = grid_for(sizes, outside=clip)
    if item.get("lead") and X.shape[0] % 2:
      X = X[:-1]
    W = impl_weight_matrix(sizes, interp, clip, form, X, item.get("lead", False))
    Wref = ref_weight_matrix(sizes, interp, X, clip)
    res = judge_weights(sizes, interp, X, W, Wref)
    sz = np.array(sizes)
    interior = np.any(X != np.round(X), axis=1)
    ctx.add(evaluations=X.shape[0] * n, nontrivial=int(interior.sum()) * n,
            traces=X.shape[0] * n)
    ctx.tab("points_by_shape", str(sizes), X.shape[0])
    ctx.tab("points", "strictly_inside_or_on_face", int(interior.sum()))
    ctx.tab("points", "outside_range", int(np.any((X < 0) | (X > sz - 1), axis=1).sum()))
    ctx.tab("points", "tied_fractional_coordinates",
            int(sum(1 for p in X if len(set((p % 1).tolist())) < len(p))))
    ctx.sample(dict(item=item, point=X[min(5, len(X) - 1)].tolist(),
                    impl_weights=np.round(W[min(5, len(X) - 1)], 5).tolist()), limit=4)
    for k, r, msg in res:
      s = dict(sig); s["violated"] = k
      case = dict(item); case["points"] = X[max(0, r - 1):r + 2].tolist()
      again = replay(case)
      ctx.violation(s, case, again or ("(block only) " + msg))
  elif kind == "units1":
    X = grid_for(sizes, outside=clip)
    Wref = ref_weight_matrix(sizes, interp, X, clip)
    layer = make_layer(sizes, 1, interp, clip)
    kernels = [np.eye(n)[i] for i in range(n)] if n <= 36 else [np.eye(n)[i] for i in (0, 1, n // 2, n - 2, n - 1)]
    kernels += [np.ones(n), np.arange(n, dtype=np.float64), -np.arange(n, dtype=np.float64) ** 2 % 5]
    for k in kernels:
      layer.kernel.assign(k.astype(np.float32)[:, None])
      o = call_layer(layer, X, form, 1)[:, 0]
      ref = Wref @ k
      err = np.abs(o - ref)
      ctx.add(evaluations=X.shape[0], nontrivial=int((ref != 0).sum()), traces=X.shape[0])
      tol = TOL * 5 * max(1.0, np.abs(k).max())
      if not (err.max() <= tol):
        r = int(err.argmax())
        s = dict(sig); s["violated"] = "reference"
        case = dict(item); case["points"] = X[max(0, r - 1):r + 2].tolist(); case["kernel"] = k.tolist()
        ctx.violation(s, case, replay(case) or "units=1 mismatch %.4g at %s" % (err[r], X[r].tolist()))
        break
    # the same call traced as a graph with an unknown batch size (Keras fit / predict)
    Xg = np.asarray(X[: min(len(X), 64)], dtype=np.float32)
    gm = graph.graph_msg(layer, Xg if form == "tensor" else [Xg[:, k:k + 1] for k in range(Xg.shape[1])])
    if gm:
      s = dict(sig); s["violated"] = "graph-mode"
      ctx.violation(s, dict(item, kind="graph", points=Xg.tolist()), gm)
  elif kind == "perunit":
    X = grid_for(sizes, outside=clip)
    msg = _perunit(sizes, interp, clip, form, X)
    ctx.add(evaluations=2 * X.shape[0], nontrivial=2 * X.shape[0] - 2, traces=2 * X.shape[0])
    if msg:
      s = dict(sig); s["violated"] = "reference"
      case = dict(item); case["points"] = X.tolist()
      ctx.violation(s, case, msg)
  elif kind == "agree":
    msg = _agree(sizes, form)
    ctx.add(evaluations=1, nontrivial=1)
    if msg:
      s = dict(sig); s["violated"] = "schemes-agree"
      ctx.violation(s, dict(item), msg)
  elif kind == "consequence":
    msg = _consequences(sizes, interp, form)
    ctx.add(evaluations=3 ** n, nontrivial=3 ** n - 1, traces=3 ** n)
    ctx.tab("consequence_configs", "%s_%s" % (sizes, interp))
    if msg:
      s = dict(sig); s["violated"] = "inheritance"
      ctx.violation(s, dict(item), msg)


def run(ctx):
  items = []
  for sizes in shapes(ctx.tier):
    n = rl.nvert(sizes)
    for interp in ("hypercube", "simplex"):
      for form in ("tensor", "list"):
        for clip in (True, False):
          items.append(dict(kind="weights", sizes=sizes, interpolation=interp, clip=clip, form=form))
          if n <= 64 or (clip and form == "tensor"):
            items.append(dict(kind="units1", sizes=sizes, interpolation=interp, clip=clip, form=form))
        items.append(dict(kind="perunit", sizes=sizes, interpolation=interp, clip=True, form=form))
      if n <= 64:
        items.append(dict(kind="weights", sizes=sizes, interpolation=interp, clip=True,
                          form="tensor", lead=True))
      if n <= (9 if ctx.quick else 12):
        items.append(dict(kind="consequence", sizes=sizes, interpolation=interp, clip=True, form="tensor"))
    items.append(dict(kind="agree", sizes=sizes, interpolation="both", clip=True, form="tensor"))
  items = alpha.rotate(items, ctx.seed)
  ctx.rule = (
      "for every enumerated (shape, scheme, input form, clip, batch layout) the real layer is "
      "run with the n one-hot basis kernels packed as units on the FULL cartesian input grid "
      "(vertices, cell interiors, faces, tied coordinates, outside both ends) giving the whole "
      "interpolation-weight matrix, compared entry-wise with an independent reference; units=1 "
      "and per-unit-input paths separately; inheritance clauses on real outputs for ALL words of "
      "{-1,0,1}^n that are monotone / Edgeworth-feasible. Non-trivial = (point strictly inside a "
      "cell or on a face) x basis kernel.")
  ctx.assumptions += ["float32; tolerance 1e-4 on weights in [0,1]",
                      "output is linear in the kernel (matmul / gather-dot), so agreement on a basis "
                      "plus the separate units=1 kernels decides all kernels",
                      "ranks > 9 and sizes > 5 not covered"]
  pool.pmap(ctx, "vt.checks.c02", "work", items, chunk=1)
