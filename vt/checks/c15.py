"""C15 - Conditional calibration and CDF functions are bounded, monotone by construction."""
import itertools

import numpy as np

from vt.core import alpha, bind, pool

ID = "C15"
LEVEL = "exploration"
# (input_min, input_max, output_min, output_max, missing input): a range around 0 and one with a
# strictly positive input_min and input range != output range
RANGES = [(-1.0, 3.0, -2.0, 5.0, 1.5), (2.0, 5.0, -10.0, 5.0, 3.0)]
LETTERS = (-50.0, -1.0, 0.0, 1.0, 50.0)


def _set_range(item):
  """Selects the keypoint ranges of this item (module globals read by the helpers below)."""
  global IMIN, IMAX, OMIN, OMAX, MISS_IN, XS
  IMIN, IMAX, OMIN, OMAX, MISS_IN = RANGES[item.get("rng", 0)]
  w = IMAX - IMIN
  XS = np.array([IMIN - 100, IMIN - 1, IMIN, IMIN + 1e-3, IMIN + 0.175 * w, IMIN + 0.25 * w,
                 IMIN + 0.425 * w, IMIN + 0.5 * w, IMIN + 0.8 * w, IMAX - 1e-3,
                 IMAX, IMAX + 2, IMAX + 100], dtype=np.float32)


_set_range({})


def pwl_items(tier):
  out = []
  for nk in (2, 3, 4):
    for mode in ("none", "none-cyclic", "inc", "inc-cmin", "inc-cmax", "inc-both"):
      for missing in ("no", "derived", "fixed"):
        for units in (1, 2):
          out.append(dict(kind="pwl", nk=nk, mode=mode, missing=missing, units=units))
        out.append(dict(kind="pwl", nk=nk, mode=mode, missing=missing, units=1, rng=1))
  for nk in (2, 3):
    for units in (1, 2):
      out.append(dict(kind="pwl-forms", nk=nk, units=units))
      out.append(dict(kind="pwl-forms", nk=nk, units=units, rng=1))
  return out


def _params(item):
  nk, mode, missing = item["nk"], item["mode"], item["missing"]
  mono = "increasing" if mode.startswith("inc") else "none"
  cmin = mode in ("inc-cmin", "inc-both")
  cmax = mode in ("inc-cmax", "inc-both")
  cyc = mode == "none-cyclic"
  P_out = nk - cmin - cmax - cyc + (1 if missing == "derived" else 0)
  return mono, cmin, cmax, cyc, P_out, nk - 2


def call_fn(xs, kin, kout, units, mono, cmin, cmax, cyc, missing):
  tf, tfl = bind.bind()
  from tensorflow_lattice.python import conditional_pwl_calibration as cpc
  return np.asarray(cpc.pwl_calibration_fn(
      inputs=tf.constant(xs), keypoint_input_parameters=None if kin is None else tf.constant(kin),
      keypoint_output_parameters=tf.constant(kout), keypoint_input_min=IMIN,
      keypoint_input_max=IMAX, keypoint_output_min=OMIN, keypoint_output_max=OMAX, units=units,
      monotonicity=mono, clamp_min=cmin, clamp_max=cmax, is_cyclic=cyc,
      missing_input_value=None if missing == "no" else MISS_IN,
      missing_output_value=-0.5 if missing == "fixed" else None), dtype=np.float64)


def judge_pwl(outs, xs_col, mono, cmin, cmax, cyc, missing, derived_raw=None):
  """outs (B, units) for sorted inputs xs_col (B,) with identical parameters per row."""
  msgs = []
  if not np.all(np.isfinite(outs)):
    return ["non-finite output"]
  tol = 1e-4 * max(1.0, abs(OMIN), abs(OMAX))
  is_miss = (xs_col == np.float32(MISS_IN)) if missing != "no" else np.zeros(len(xs_col), bool)
  o = outs[~is_miss]
  x = xs_col[~is_miss]
  if o.min() < OMIN - tol or o.max() > OMAX + tol:
    msgs.append("output %.6g outside [%s, %s]" % (o.min() if o.min() < OMIN - tol else o.max(), OMIN, OMAX))
  if mono == "increasing":
    d = np.diff(o, axis=0)
    if d.min() < -tol:
      r = int(np.argmin(d.min(axis=1)))
      msgs.append("output decreases by %.6g between inputs %s and %s" % (-d.min(), x[r], x[r + 1]))
  i_lo = int(np.where(x == np.float32(IMIN))[0][0])
  i_hi = int(np.where(x == np.float32(IMAX))[0][0])
  if cmin and np.abs(o[i_lo] - OMIN).max() > tol:
    msgs.append("clamp_min: f(input_min)=%s != %s" % (o[i_lo].tolist(), OMIN))
  if cmax and np.abs(o[i_hi] - OMAX).max() > tol:
    msgs.append("clamp_max: f(input_max)=%s != %s" % (o[i_hi].tolist(), OMAX))
  if cyc and np.abs(o[i_lo] - o[i_hi]).max() > tol:
    msgs.append("cyclic: f(input_min)=%s != f(input_max)=%s" % (o[i_lo].tolist(), o[i_hi].tolist()))
  if missing != "no":
    m = outs[is_miss]
    if missing == "fixed":
      if np.abs(m + 0.5).max() > 1e-6:
        msgs.append("missing input maps to %s, expected -0.5" % m.tolist())
    else:
      want = OMIN + (OMAX - OMIN) / (1.0 + np.exp(-np.asarray(derived_raw, dtype=np.float64)))
      if np.abs(m - want[None, :]).max() > tol or m.min() < OMIN - tol or m.max() > OMAX + tol:
        msgs.append("missing input maps to %s, expected sigmoid-derived %s within bounds" %
                    (m.tolist(), want.tolist()))
  return msgs


IN_LETTERS = (-50.0, -2.0, 0.0, 2.0, 50.0)


def pwl_case(item, ctx=None, only=None):
  """All (input word, output word) pairs. Output words are batched: the batch is
  (output word) x (sorted inputs) with per-row parameters (documented (batch, units, P) form).

  Input-keypoint words containing +-50 collapse a segment below float32 resolution of the
  keypoint positions; evaluating exactly at such a (numerically duplicated) keypoint is
  ill-conditioned, so the end-point clauses (clamps, cyclic) are judged only for
  well-conditioned input words, boundedness / monotonicity / missing for all."""
  _set_range(item)
  mono, cmin, cmax, cyc, P_out, P_in = _params(item)
  units, missing = item["units"], item["missing"]
  if P_out <= 0:
    return None, item
  xs = np.sort(np.concatenate([XS, [np.float32(MISS_IN)]])) if missing != "no" else np.sort(XS)
  xs = xs.astype(np.float32)
  nx = len(xs)
  out_words = alpha.words(LETTERS, P_out).T
  in_words = alpha.words(IN_LETTERS, P_in).T if P_in > 0 else np.zeros((1, 0))
  if only is not None:
    in_words = np.asarray(only["iw"], dtype=np.float64).reshape(1, -1)
    out_words = np.asarray(only["ow"], dtype=np.float64).reshape(1, -1)
  msgs, total = [], 0
  NW = out_words.shape[0]
  kout = np.stack([out_words, -out_words][:units], axis=1)          # (NW, units, P)
  kout_rows = np.repeat(kout, nx, axis=0).astype(np.float32)         # (NW*nx, units, P)
  x_rows = np.tile(xs, NW)[:, None]
  for iw in in_words:
    kin = None if P_in == 0 else np.stack([iw, iw[::-1]][:units])[None].astype(np.float32)
    well = bool(np.all(np.abs(iw) <= 2.0)) if P_in else True
    try:
      outs = call_fn(x_rows, kin, kout_rows, units, mono, cmin, cmax, cyc, missing)
    except Exception as e:  # pylint: disable=broad-except
      msgs = ["documented call rejected/failed: %s: %s" % (type(e).__name__, str(e)[:200])]
      break
    total += outs.size
    outs = outs.reshape(NW, nx, units)
    for wi in range(NW):
      raw = kout[wi, :, -1] if missing == "derived" else None
      m = judge_pwl(outs[wi], xs, mono, cmin and well, cmax and well, cyc and well, missing, raw)
      if m:
        msgs = ["%s (input params %s, output params %s)" %
                ("; ".join(m), iw.tolist(), out_words[wi].tolist())]
        item = dict(item, only=dict(iw=iw.tolist(), ow=out_words[wi].tolist()))
        break
    if msgs:
      break
  if ctx is not None:
    ctx.add(evaluations=total, nontrivial=total - nx, traces=total)
    ctx.tab("pwl_fn_modes", "%s/%s" % (item["mode"], missing), total)
  return ("; ".join(msgs) or None), item


def forms_case(item, ctx=None):
  """Every documented parameter rank/broadcast form is accepted and gives the same function."""
  _set_range(item)
  nk, units = item["nk"], item["units"]
  P_in, P_out = nk - 2, nk
  B = 4
  xs = (IMIN + (IMAX - IMIN) * np.array([[0.125], [0.3], [0.525], [0.975]])).astype(np.float32)
  ow = np.array([0.3, -1.0, 0.8, 2.0][:P_out], dtype=np.float32)
  iw = np.array([0.5, -0.7][:P_in], dtype=np.float32)
  def forms(vec, U):
    P = len(vec)
    out = {"(1,U,P)": np.tile(vec[None, None, :], (1, U, 1)),
           "(B,U,P)": np.tile(vec[None, None, :], (B, U, 1)),
           "(1,1,P)": vec[None, None, :],
           "(B,1,P)": np.tile(vec[None, None, :], (B, 1, 1))}
    if U == 1:
      out["(1,P)"] = vec[None, :]
      out["(B,P)"] = np.tile(vec[None, :], (B, 1))
    return out
  in_forms = {"None": None} if P_in == 0 else forms(iw, units)
  out_forms = forms(ow, units)
  x_forms = {"(B,1)": xs}
  if units > 1:
    x_forms["(B,U)"] = np.tile(xs, (1, units))
  ref = None
  msgs, total = [], 0
  for (xn, x), (inn, ki), (on, ko) in itertools.product(x_forms.items(), in_forms.items(), out_forms.items()):
    try:
      o = call_fn(x, ki, ko, units, "none", False, False, False, "no")
    except Exception as e:  # pylint: disable=broad-except
      msgs.append("documented form inputs=%s, keypoint_input_parameters=%s, "
                  "keypoint_output_parameters=%s with units=%d is rejected: %s: %s" %
                  (xn, inn, on, units, type(e).__name__, str(e)[:160]))
      continue
    total += o.size
    if o.shape != (B, units):
      msgs.append("form %s/%s/%s: output shape %s" % (xn, inn, on, o.shape))
      continue
    if ref is None:
      ref = o
    elif np.abs(o - ref).max() > 1e-5:
      msgs.append("form %s/%s/%s computes a different function (max diff %.4g)" %
                  (xn, inn, on, np.abs(o - ref).max()))
  if ctx is not None:
    ctx.add(evaluations=max(total, 1), nontrivial=max(total - 1, 1), traces=total)
    ctx.tab("pwl_fn_forms", "nk%d_units%d" % (nk, units),
            len(x_forms) * len(in_forms) * len(out_forms))
  return ("; ".join(msgs[:3]) or None), item


# ------------------------------------------------------------------ CDF
def cdf_items(tier):
  out = []
  for which in ("layer", "fn"):
    for act in ("relu6", "sigmoid"):
      for red in ("mean", "geometric_mean", "none"):
        for sp, d, units in ((1, 1, 1), (1, 2, 1), (1, 2, 2), (2, 2, 2), (2, 4, 2), (2, 2, 4)):
          for scaling in (("fixed", "learned_shared", "learned_per_input") if which == "layer"
                          else ("none", "shared", "per_input", "exp")):
            out.append(dict(kind="cdf", which=which, activation=act, reduction=red, sparsity=sp,
                            dim=d, units=units, scaling=scaling, nk=2))
  return out


def cdf_case(item, ctx=None):
  tf, tfl = bind.bind()
  from tensorflow_lattice.python import conditional_cdf
  d, units, sp, nk = item["dim"], item["units"], item["sparsity"], item["nk"]
  ush = units // sp
  n_entries = d * nk * ush
  letters = (-1.0, 0.0, 0.5, 2.0)
  if n_entries <= 4:
    words = alpha.words(letters, n_entries).T
  else:
    base = alpha.words(letters, 4).T
    words = np.concatenate([base, base[:, ::-1], np.roll(base, 1, axis=1)], axis=1)[:, :n_entries]
  pts = [-3.0, -1.0, 0.0, 0.25, 0.5, 1.0, 2.0, 7.0]
  if d <= 2:
    X = np.array(list(itertools.product(pts, repeat=d)), dtype=np.float32)
  else:
    X2 = np.array(list(itertools.product(pts, repeat=2)), dtype=np.float32)
    X = np.concatenate([X2, X2[:, ::-1]], axis=1)[:, :d]
    # lines varying one coordinate at a time for the other dims
    extra = []
    for k in range(2, d):
      for v in pts:
        p = np.full(d, 0.4, dtype=np.float32); p[k] = v
        extra.append(p)
    X = np.concatenate([X, np.array(extra)], axis=0)
  scal_values = (0.0, 0.5, 3.0, 100.0)
  layer = None
  if item["which"] == "layer":
    layer = tfl.layers.CDF(num_keypoints=nk, units=units, activation=item["activation"],
                           reduction=item["reduction"], input_scaling_type=item["scaling"],
                           input_scaling_init=2.0, sparsity_factor=sp)
    layer(tf.zeros((1, d)))
  msgs, total = [], 0
  for sv in scal_values:
    sc = None
    mult = None
    if item["which"] == "layer":
      if item["scaling"] == "fixed":
        if sv != scal_values[0]:
          continue
      elif item["scaling"] == "learned_shared":
        # apply the layer's own constraint to an arbitrary (possibly negative) value
        v = layer.input_scaling.constraint(tf.constant([sv - 1.0]))
        layer.input_scaling.assign(v)
      else:
        raw = (sv - 1.0 + np.arange(d, dtype=np.float32)).reshape(1, d, 1, 1)
        layer.input_scaling.assign(layer.input_scaling.constraint(tf.constant(raw)))
    else:
      if item["scaling"] == "none":
        if sv != scal_values[0]:
          continue
      elif item["scaling"] == "shared":
        sc = np.full((1, 1, 1, 1), sv, dtype=np.float32)
      elif item["scaling"] == "per_input":
        sc = (sv + np.arange(d, dtype=np.float32) * 0.5).reshape(1, d, 1, 1)
      else:
        sc = (np.array([-3.0, 0.0, 2.0, -40.0])[scal_values.index(sv)] +
              np.zeros((1, d, 1, 1), dtype=np.float32)).astype(np.float32)
        mult = 1.5
    for w in words:
      K = w.reshape(1, d, nk, ush).astype(np.float32)
      if layer is not None:
        layer.kernel.assign(K)
        o = np.asarray(layer(tf.constant(X)), dtype=np.float64)
      else:
        o = np.asarray(conditional_cdf.cdf_fn(
            inputs=tf.constant(X), location_parameters=tf.constant(K),
            scaling_parameters=None if sc is None else tf.constant(sc), units=units,
            activation=item["activation"], reduction=item["reduction"], sparsity_factor=sp,
            scaling_exp_transform_multiplier=mult), dtype=np.float64)
      total += o.size
      eps = 1.1e-3 if item["reduction"] == "geometric_mean" else 1e-5
      m = []
      if not np.all(np.isfinite(o)):
        m.append("non-finite output")
      elif o.min() < -eps or o.max() > 1.0 + eps:
        m.append("output %.6g outside [0,1]" % (o.min() if o.min() < -eps else o.max()))
      else:
        of = o.reshape(o.shape[0], -1)
        for k in range(d):
          other = np.delete(X, k, axis=1)
          keys = {}
          for r in range(X.shape[0]):
            keys.setdefault(tuple(other[r].tolist()), []).append(r)
          for rows in keys.values():
            if len(rows) < 2:
              continue
            rows = sorted(rows, key=lambda r: X[r, k])
            dd = np.diff(of[rows], axis=0)
            if dd.min() < -1e-5:
              m.append("output decreases by %.6g when input %d increases" % (-dd.min(), k))
              break
          if m:
            break
      if not m and layer is not None and d > 1:
        # the documented shared-input form: one column (batch, 1) feeding every input slot
        xs1 = np.array(pts, dtype=np.float32)[:, None]
        o1 = np.asarray(layer(tf.constant(xs1)), dtype=np.float64)
        total += o1.size
        if not np.all(np.isfinite(o1)):
          m.append("shared (batch, 1) input: non-finite output")
        elif o1.min() < -eps or o1.max() > 1.0 + eps:
          m.append("shared (batch, 1) input: output %.6g outside [0,1]" % (o1.min() if o1.min() < -eps else o1.max()))
        elif np.diff(o1.reshape(len(pts), -1), axis=0).min() < -1e-5:
          m.append("shared (batch, 1) input: output decreases when the input increases")
        else:
          ot = np.asarray(layer(tf.constant(np.tile(xs1, (1, d)))), dtype=np.float64)
          if ot.shape != o1.shape or np.abs(ot - o1).max() > 1e-5:
            m.append("shared (batch, 1) input gives a different output than the same value in every "
                     "column (max diff %.4g)" % (np.abs(ot - o1).max() if ot.shape == o1.shape else -1))
      if m:
        msgs = ["%s (kernel %s, scaling setting %s)" % ("; ".join(m), w.tolist(), sv)]
        break
    if msgs:
      break
  if ctx is not None:
    ctx.add(evaluations=total, nontrivial=total // 2, traces=total)
    ctx.tab("cdf_cases", "%s/%s/%s" % (item["which"], item["activation"], item["reduction"]), total)
  return ("; ".join(msgs) or None), item


def _dispatch(item, ctx):
  k = item["kind"]
  if k == "pwl":
    return pwl_case(item, ctx, only=item.get("only"))
  if k == "pwl-forms":
    return forms_case(item, ctx)
  return cdf_case(item, ctx)


def replay(case):
  return _dispatch(case, None)[0]


def work(ctx, item):
  msg, case = _dispatch(item, ctx)
  ctx.sample(item, limit=6)
  if msg:
    sig = dict(kind=item["kind"])
    for key in ("mode", "missing", "which", "activation", "reduction", "scaling"):
      if key in item:
        sig[key] = item[key]
    if item["kind"] == "pwl-forms":
      sig["units1"] = int(item["units"] == 1)
      sig["nk2"] = int(item["nk"] == 2)
    if item["kind"] == "pwl":
      sig["rejected"] = int("rejected" in msg)
    ctx.violation(sig, case, msg)


def run(ctx):
  items = alpha.rotate(pwl_items(ctx.tier) + cdf_items(ctx.tier), ctx.seed)
  ctx.rule = (
      "pwl_calibration_fn: keypoints {2,3,4} x units {1,2} x 6 monotonicity/clamp/cyclic modes x 3 "
      "missing modes x ALL output-parameter words over {-50,-1,0,1,50}^P x ALL input-keypoint words over {-50,-2,0,2,50} on a sorted "
      "input set incl. both end keypoints, far outside, the missing value; every documented "
      "parameter rank/broadcast form incl. omitted interior keypoints; CDF layer and cdf_fn: "
      "activations x 3 reductions x sparsity x scaling types/values {0,.5,3,100} (layer: through its "
      "own NonNeg constraint) x kernel words over {-1,0,.5,2} x input grid, all ordered pairs per "
      "input. Non-trivial = evaluated output with non-default parameters.")
  ctx.assumptions += ["float32; tolerance 1e-4*max(1,|bounds|)"]
  pool.pmap(ctx, "vt.checks.c15", "work", items, chunk=2)
