"""C08 - Iterative (Dykstra) projection keeps feasible weights, converges to the L2-nearest point.

The transition system is "one more Dykstra iteration": for every start kernel the
trajectory N = 1, 10, 100, 1000 of the REAL project_by_dykstra is observed and
judged (violation decay, fixpoint, distance to the exact projection computed by
exhaustive active-set enumeration).
"""
import itertools

import numpy as np

from vt.core import alpha, bind, pool
from vt.ref import lattice as rl
from vt.ref import projection as pj

ID = "C08"
LEVEL = "model_checking"
NEAREST = {"mono", "unimodal", "edgeworth", "trapezoid", "mdom", "jmono"}


def families(sizes):
  """Single families as (name, project_by_dykstra kwargs). Prerequisite monotonicities included."""
  d = len(sizes)
  out = []
  for k in range(d):
    m = [0] * d; m[k] = 1
    out.append(("mono%d" % k, dict(monotonicities=m)))
  out.append(("mono-all", dict(monotonicities=[1] * d)))
  for k in range(d):
    if sizes[k] >= 3:
      for direction in (1, -1):
        u = [0] * d; u[k] = direction
        out.append(("unimodal%d%+d" % (k, direction), dict(unimodalities=u)))
  if d >= 2:
    for main, cond in ((0, 1), (1, 0)) + (((0, 2), (1, 2)) if d >= 3 else ()):
      for s in (1, -1):
        m = [0] * d; m[main] = 1
        out.append(("edgeworth%d%d%+d" % (main, cond, s),
                    dict(monotonicities=m, edgeworth_trusts=[(main, cond, s)])))
        out.append(("trapezoid%d%d%+d" % (main, cond, s),
                    dict(monotonicities=m, trapezoid_trusts=[(main, cond, s)])))
    m2 = [0] * d; m2[0] = 1; m2[1] = 1
    out.append(("mdom01", dict(monotonicities=m2, monotonic_dominances=[(0, 1)])))
    out.append(("mdom10", dict(monotonicities=m2, monotonic_dominances=[(1, 0)])))
    out.append(("rdom01", dict(monotonicities=m2, range_dominances=[(0, 1)])))
    out.append(("rdom10", dict(monotonicities=m2, range_dominances=[(1, 0)])))
    out.append(("jmono01", dict(joint_monotonicities=[(0, 1)])))
    if d >= 3:
      out.append(("jmono02", dict(joint_monotonicities=[(0, 2)])))
    free3 = [k for k in range(d) if sizes[k] >= 3]
    for direction in ("valley", "peak"):
      if free3:
        out.append(("junimodal-1-%s" % direction, dict(joint_unimodalities=[((free3[0],), direction)])))
      if len(free3) >= 2:
        out.append(("junimodal-2-%s" % direction, dict(joint_unimodalities=[(tuple(free3[:2]), direction)])))
  return out


def merge(a, b):
  """Combines two family kwargs when compatible; returns None if not a valid configuration."""
  out = {}
  for kw in (a, b):
    for k, v in kw.items():
      if k in ("monotonicities", "unimodalities"):
        if k in out:
          out[k] = [x or y for x, y in zip(out[k], v)] if k == "monotonicities" else [
              (x if x else y) for x, y in zip(out[k], v)]
          if k == "unimodalities" and any(x and y and x != y for x, y in zip(a.get(k, v), v)):
            return None
        else:
          out[k] = list(v)
      else:
        out[k] = list(out.get(k, [])) + list(v)
  mono = out.get("monotonicities") or []
  uni = out.get("unimodalities") or []
  if any(m and u for m, u in zip(mono, uni)):
    return None
  for dims, _ in out.get("joint_unimodalities", []):
    if any(mono[d] for d in dims if d < len(mono)):
      return None
  ju = out.get("joint_unimodalities", [])
  used = [d for dims, _ in ju for d in dims]
  if len(used) != len(set(used)) or any(uni[d] for d in used if d < len(uni)):
    return None  # the same dimension in two (joint) unimodality constraints
  trusts = list(out.get("edgeworth_trusts", [])) + list(out.get("trapezoid_trusts", []))
  mains = set(t[0] for t in trusts); conds = set(t[1] for t in trusts)
  if mains & conds:
    return None
  dirs = {}
  for m, c, s in trusts:
    if dirs.setdefault((m, c), s) != s:
      return None
  for key in ("monotonic_dominances", "range_dominances"):
    prs = out.get(key, [])
    if any((b_, a_) in prs for a_, b_ in prs):
      return None
  return out


def kind_of(name):
  for k in ("mono", "unimodal", "edgeworth", "trapezoid", "mdom", "rdom", "jmono", "junimodal"):
    if name.startswith(k):
      return k
  raise ValueError(name)


def configs(tier, seed=0):
  quick = tier == "quick"
  shapes = [[2, 2], [2, 3], [3, 2], [3, 3], [2, 2, 2]]
  if not quick:
    shapes += [[3], [4], [2, 4]]
  out = []
  for sizes in shapes:
    fams = families(sizes)
    for name, kw in fams:
      out.append(dict(sizes=sizes, name=name, kw=kw, kinds=[kind_of(name)]))
    n = rl.nvert(sizes)
    for (n1, k1), (n2, k2) in itertools.combinations(fams, 2):
      if kind_of(n1) == kind_of(n2) and kind_of(n1) in ("mono",):
        continue
      if quick and n >= 8 and not (kind_of(n1) == kind_of(n2) or (hash_s(n1 + n2) % 4) == 0):
        continue  # quick tier on the 8-9 vertex lattices: every same-family pair + a fixed quarter of the mixed pairs
      if quick and n >= 9 and ("junimodal-2" in n1 + n2) and not (n1.startswith("mono") or n2.startswith("mono")):
        continue  # (tracing dozens of hyperplane sets is slow; thorough tier covers them)
      kw = merge(k1, k2)
      if kw is None:
        continue
      out.append(dict(sizes=sizes, name=n1 + "+" + n2, kw=kw, kinds=[kind_of(n1), kind_of(n2)]))
  return alpha.rotate(out, seed)


def hash_s(s):
  return sum((i + 1) * ord(c) for i, c in enumerate(s))


def to_jsonable(kw):
  out = {}
  for k, v in kw.items():
    if k == "joint_unimodalities":
      out[k] = [[list(d), s] for d, s in v]
    else:
      out[k] = [list(x) if isinstance(x, (tuple, list)) else x for x in v]
  return out


def from_jsonable(kw):
  out = {}
  for k, v in kw.items():
    if k == "joint_unimodalities":
      out[k] = [(tuple(d), s) for d, s in v]
    elif k in ("monotonicities", "unimodalities"):
      out[k] = list(v)
    else:
      out[k] = [tuple(x) for x in v]
  return out


_FN_CACHE = {}


def dykstra(sizes, kw, W, N, eager=False):
  """Real project_by_dykstra. Long runs are traced once with tf.function (the library's own
  tf.while_loop then runs as a graph loop, as it does under Keras training); eager=True runs
  the plain eager path."""
  tf, tfl = bind.bind()
  from tensorflow_lattice.python import lattice_lib
  W32 = np.asarray(W, dtype=np.float32)
  if eager:
    o = lattice_lib.project_by_dykstra(tf.constant(W32), lattice_sizes=list(sizes),
                                       num_iterations=N, **kw)
    return np.asarray(o, dtype=np.float64)
  key = (repr(sizes), repr(sorted(kw.items())), N, W32.shape)
  fn = _FN_CACHE.get(key)
  if fn is None:
    if len(_FN_CACHE) > 64:
      _FN_CACHE.clear()
    def f(w):
      return lattice_lib.project_by_dykstra(w, lattice_sizes=list(sizes), num_iterations=N, **kw)
    fn = tf.function(f, autograph=False)
    _FN_CACHE[key] = fn
  return np.asarray(fn(tf.constant(W32)), dtype=np.float64)


def constraint_rows(sizes, kw):
  fams = rl.constraint_matrix(sizes, **kw)
  return rl.stack(fams)


def judge(cfg, W, ctx=None):
  """Returns list of (column, kind, message)."""
  sizes, kw = cfg["sizes"], from_jsonable(cfg["kw"])
  A = constraint_rows(sizes, kw)
  S = np.maximum(1.0, np.abs(W).max(axis=0))
  res = []
  feas = (A @ W).min(axis=0) >= 0
  # (i) feasible kernels unchanged
  if feas.any():
    Wf = W[:, feas]
    for N in (1, 3, 10):
      o = dykstra(sizes, kw, Wf, N)
      mv = np.abs(o - Wf).max(axis=0)
      bad = np.where(~(mv <= 2e-5 * S[feas]))[0]
      if len(bad):
        c = int(np.where(feas)[0][bad[0]])
        res.append((c, "feasible-moved", "feasible kernel %s moved by %.6g after %d iterations" %
                    (W[:, c].tolist(), mv[bad[0]], N)))
        break
  # (ii) trajectory of the largest violation
  traj = {}
  for N in cfg.get("Ns", (1, 10, 100, 1000)):
    traj[N] = dykstra(sizes, kw, W, N)
  Ns = sorted(traj)
  viol = {N: np.maximum(0.0, -(A @ traj[N]).min(axis=0)) for N in Ns}
  last = Ns[-1]
  # "tends to zero": small in absolute terms AND still shrinking (Dykstra may converge ~1/N)
  prev = Ns[-2]
  ok_conv = (viol[last] <= 1e-4 * S) | ((viol[last] <= 2e-3 * S * (1000.0 / last)) &
                                        (viol[last] <= 0.6 * viol[prev] + 1e-6))
  bad = np.where(~ok_conv)[0]
  if len(bad):
    c = int(bad[np.argmax(viol[last][bad])])
    res.append((c, "not-converged", "largest violation after %d iterations is %.6g (kernel %s; "
                "violations by N: %s)" % (last, viol[last][c], W[:, c].tolist(),
                                          {N: float(viol[N][c]) for N in Ns})))
  if 100 not in viol:
    viol[100] = viol[Ns[-2]]
  if 10 in viol:
    bad = np.where(~(viol[last] <= viol[10] + 1e-4 * S))[0]
    if len(bad):
      c = int(bad[0])
      res.append((c, "violation-grows", "violation %.6g at N=%d exceeds %.6g at N=10 (kernel %s)" %
                  (viol[last][c], last, viol[10][c], W[:, c].tolist())))
  # (iii) projecting the converged result again does not move it
  again = dykstra(sizes, kw, traj[last], last)
  mv = np.abs(again - traj[last]).max(axis=0)
  bad = np.where(~(mv <= 3e-3 * S))[0]
  if len(bad):
    c = int(bad[np.argmax(mv[bad])])
    res.append((c, "not-idempotent", "converged result moves by %.6g when projected again "
                "(kernel %s)" % (mv[c], W[:, c].tolist())))
  # (iv) nearest point
  nearest = all(k in NEAREST for k in cfg["kinds"])
  if nearest:
    P = pj.project(A, W)
    dist = np.abs(traj[last] - P).max(axis=0)
    bad = np.where(~(dist <= 3e-3 * S))[0]
    if len(bad):
      c = int(bad[np.argmax(dist[bad])])
      res.append((c, "not-nearest", "limit differs from the exact Euclidean projection by %.6g: "
                  "kernel %s -> dykstra %s, exact %s" %
                  (dist[c], W[:, c].tolist(), np.round(traj[last][:, c], 5).tolist(),
                   np.round(P[:, c], 5).tolist())))
    # (v) the strict layer constraint with many iterations stays close to the nearest point
    strict_ok = all(k in ("mono", "edgeworth", "trapezoid") for k in cfg["kinds"])
    if strict_ok:
      tf, tfl = bind.bind()
      from tensorflow_lattice.python import lattice_layer
      ckw = {k: v for k, v in kw.items()}
      c_ = lattice_layer.LatticeConstraints(lattice_sizes=list(sizes),
                                            num_projection_iterations=last,
                                            enforce_strict_monotonicity=True, **ckw)
      o = np.asarray(c_(tf.constant(W.astype(np.float32))), dtype=np.float64)
      dist = np.abs(o - P).max(axis=0)
      bad = np.where(~(dist <= 5e-3 * S))[0]
      if len(bad):
        c = int(bad[np.argmax(dist[bad])])
        res.append((c, "strict-far-from-nearest", "strict constraint with %d iterations is %.6g "
                    "away from the exact projection (kernel %s)" % (last, dist[c], W[:, c].tolist())))
  if ctx is not None:
    moved = np.abs(traj[last] - W).max(axis=0) > 1e-9
    ctx.add(evaluations=W.shape[1] * (sum(Ns) + last), nontrivial=int(moved.sum()),
            states=W.shape[1] * len(Ns), transitions=W.shape[1] * (sum(Ns) + last),
            traces=W.shape[1] * (2 if nearest else 1))
    ctx.tab("outcome", "feasible_start_kernels", int(feas.sum()))
    ctx.tab("outcome", "infeasible_start_kernels", int((~feas).sum()))
    ctx.tab("outcome", "compared_with_exact_projection", int(W.shape[1]) if nearest else 0)
  return res


def replay(case):
  if case.get("kind") == "pwl":
    return pwl_case(case)[0]
  cfg = case["cfg"]
  W = np.asarray(case["kernel"], dtype=np.float64)
  if W.ndim == 1:
    W = W[:, None]
  if case.get("violated") == "units1-differs":
    kw_ = from_jsonable(cfg["kw"])
    a = dykstra(cfg["sizes"], kw_, W[:, :1], 10, eager=True)
    b = dykstra(cfg["sizes"], kw_, np.concatenate([W[:, :1], W[:, :1] * 0], axis=1), 10)
    return None if np.abs(a[:, 0] - b[:, 0]).max() <= 1e-5 else "units=1 result differs from packed"
  res = judge(cfg, W)
  want = case.get("violated")
  msgs = [m for _, k, m in res if want is None or k == want] or [m for _, _, m in res]
  return "; ".join(msgs) or None


# ------------------------------------------------------------------------ PWL
def pwl_items(tier):
  out = []
  for kp in ([0.0, 1.0], [0.0, 1.0, 2.0], [0.0, 1.0, 3.0], [0.0, 0.1, 1.0, 4.0]):
    for mono in (1, -1, 0):
      for conv in (0, 1, -1):
        for lo, hi in ((None, None), (0.0, None), (None, 1.0), (0.0, 1.0)):
          for cmin, cmax in ((False, False), (True, False), (False, True)):
            if (cmin and (lo is None or mono == 0)) or (cmax and (hi is None or mono == 0)):
              continue
            if mono == 0 and conv == 0 and lo is None and hi is None:
              continue
            out.append(dict(kind="pwl", kp=kp, mono=mono, conv=conv, lo=lo, hi=hi, cmin=cmin,
                            cmax=cmax))
  return out


def pwl_case(item, ctx=None):
  tf, tfl = bind.bind()
  from tensorflow_lattice.python import pwl_calibration_lib as plib
  kp = np.array(item["kp"])
  n = len(kp)
  lengths = kp[1:] - kp[:-1]
  mono, conv, lo, hi = item["mono"], item["conv"], item["lo"], item["hi"]
  W = alpha.words(alpha.A6 if n <= 3 else alpha.A3, n)
  if item.get("only") is not None:
    W = np.asarray(item["only"], dtype=np.float64).reshape(n, -1)
  omin, omax, cmin_t, cmax_t = plib.convert_all_constraints(lo, hi, item["cmin"], item["cmax"])
  def run(Win, iters):
    return np.asarray(plib.project_all_constraints(
        tf.constant(Win.astype(np.float32)), monotonicity=mono, output_min=omin, output_max=omax,
        output_min_constraints=cmin_t, output_max_constraints=cmax_t, convexity=conv,
        lengths=tf.constant(lengths.astype(np.float32)), num_projection_iterations=iters),
                      dtype=np.float64)
  # feasibility rows: A w >= b on the kernel (bias, heights)
  rows, b = [], []
  cum = np.tril(np.ones((n, n)))  # outputs = cum @ w
  if mono:
    for i in range(1, n):
      r = np.zeros(n); r[i] = mono
      rows.append(r); b.append(0.0)
  if conv and n >= 3:
    for i in range(1, n - 1):
      r = np.zeros(n)
      r[i + 1] = conv / lengths[i]; r[i] = -conv / lengths[i - 1]
      rows.append(r); b.append(0.0)
  if lo is not None:
    for i in range(n):
      rows.append(cum[i]); b.append(lo)
  if hi is not None:
    for i in range(n):
      rows.append(-cum[i]); b.append(-hi)
  A = np.array(rows).reshape(-1, n); b = np.array(b)
  feas = (A @ W - b[:, None]).min(axis=0) >= 0 if len(b) else np.ones(W.shape[1], bool)
  outs = np.tril(np.ones((n, n))) @ W
  if item["cmin"]:
    feas &= np.abs(outs.min(axis=0) - lo) == 0
  if item["cmax"]:
    feas &= np.abs(outs.max(axis=0) - hi) == 0
  S = np.maximum(1.0, np.abs(outs).max(axis=0))
  msgs = []
  total = 0
  if feas.any():
    for iters in (1, 8, 100):
      o = run(W[:, feas], iters)
      total += int(feas.sum())
      mv = np.abs(o - W[:, feas]).max(axis=0)
      bad = np.where(~(mv <= 2e-5 * S[feas]))[0]
      if len(bad):
        c = int(np.where(feas)[0][bad[0]])
        msgs.append("feasible PWL kernel %s moved by %.6g (%d iterations)" %
                    (W[:, c].tolist(), mv[bad[0]], iters))
        item = dict(item, only=W[:, c].tolist())
        break
  # nearest for monotonicity + bounds (no convexity); a clamped end is an equality on that output
  if not msgs and mono and conv == 0 and (lo is not None or hi is not None):
    A2, b2 = A, b
    if item["cmin"] or item["cmax"]:
      extra, eb = [], []
      first, last_ = cum[0], cum[n - 1]
      if item["cmin"]:   # smallest output of a monotone function: first keypoint if increasing
        r = first if mono == 1 else last_
        extra.append(-r); eb.append(-lo)
      if item["cmax"]:
        r = last_ if mono == 1 else first
        extra.append(r); eb.append(hi)
      A2 = np.concatenate([A, np.array(extra)], axis=0); b2 = np.concatenate([b, np.array(eb)])
    P = pj.project_active_set(A2, W, b=b2)
    o = run(W, 1000)
    total += W.shape[1]
    dist = np.abs(o - P).max(axis=0)
    bad = np.where(~(dist <= 2e-4 * S))[0]
    if len(bad):
      c = int(bad[np.argmax(dist[bad])])
      msgs.append("PWL monotonicity+bounds: result after 1000 iterations is %.6g away from the "
                  "nearest feasible kernel: %s -> %s, exact %s" %
                  (dist[c], W[:, c].tolist(), np.round(o[:, c], 5).tolist(),
                   np.round(P[:, c], 5).tolist()))
      item = dict(item, only=W[:, c].tolist())
  if ctx is not None:
    ctx.add(evaluations=max(total, 1), nontrivial=int((~feas).sum()), states=max(total, 1),
            transitions=max(total, 1), traces=total)
    ctx.tab("pwl", "mono%d_conv%d" % (mono, conv))
  return ("; ".join(msgs) or None), item


def work(ctx, item):
  if item.get("kind") == "pwl":
    msg, case = pwl_case(item, ctx)
    if msg:
      ctx.violation(dict(kind="pwl", violated="nearest" if "nearest" in msg else "feasible-moved",
                         mono=int(item["mono"] != 0), conv=int(item["conv"] != 0)), case, msg)
    return
  cfg = dict(item, kw=to_jsonable(item["kw"]))
  sizes = cfg["sizes"]
  n = rl.nvert(sizes)
  if "junimodal-2" in cfg["name"] and n >= 9 and ctx.quick:
    cfg["Ns"] = (1, 10, 100, 200)  # dozens of hyperplane sets per iteration: shorter horizon in quick
  W = alpha.words(alpha.A3, n)
  res = judge(cfg, W, ctx)
  # the units == 1 code path (eager): same kernels alone must give the packed result
  kw_ = from_jsonable(cfg["kw"])
  packed10 = dykstra(sizes, kw_, W, 10)
  for c in sorted(set((1, 5, W.shape[1] // 2, W.shape[1] - 2))):
    alone = dykstra(sizes, kw_, W[:, c:c + 1], 10, eager=True)
    if not (np.abs(alone[:, 0] - packed10[:, c]).max() <= 1e-5):
      res.append((c, "units1-differs", "[units=1, eager] 10 iterations give %s, packed/graph give %s" %
                  (alone[:, 0].tolist(), packed10[:, c].tolist())))
  ctx.tab("configs_by_kinds", "+".join(sorted(cfg["kinds"])))
  ctx.tab("configs_by_shape", str(sizes))
  ctx.sample(dict(sizes=sizes, families=cfg["name"], kernels=W.shape[1]), limit=5)
  seen = set()
  for col, kind, msg in res:
    if kind in seen:
      continue
    seen.add(kind)
    case = dict(cfg=cfg, kernel=W[:, col].tolist(), violated=kind)
    sig = dict(violated=kind, kinds="+".join(sorted(cfg["kinds"])))
    alone = None
    try:
      alone = replay(case)
    except Exception as e:  # pylint: disable=broad-except
      alone = "exception when re-executed alone: %r" % (e,)
    if alone:
      ctx.violation(sig, case, alone)
    else:
      sig["packed_only"] = 1
      lo_, hi_ = max(0, col - 1), min(W.shape[1], col + 2)
      ctx.violation(sig, dict(cfg=cfg, kernel=W[:, lo_:hi_].tolist(), violated=kind),
                    "only in a multi-unit kernel: " + msg)


def run(ctx):
  items = configs(ctx.tier, ctx.seed) + pwl_items(ctx.tier)
  ctx.rule = (
      "every single family and every valid pair of families (monotonicity, unimodality +-, Edgeworth "
      "+-, trapezoid +-, monotonic dominance, range dominance, joint monotonicity, joint "
      "unimodality valley/peak) on [2,2],[2,3],[3,2],[3,3],[2,2,2] x ALL kernels of {-1,0,1}^n: "
      "the trajectory N=1,10,100,1000 of the real project_by_dykstra (packed; units=1 path "
      "separately); oracle = feasible unchanged, violation -> 0, idempotence, and distance to the "
      "EXACT projection (exhaustive active-set enumeration / NNLS) for the families the property "
      "lists; PWL project_all_constraints likewise. Non-trivial = start kernel moved by the "
      "projection.")
  ctx.assumptions += ["float32; tolerances 1e-4..2e-4*max(1,|w|)", "limit observed at N=1000"]
  pool.pmap(ctx, "vt.checks.c08", "work", items, chunk=1)
