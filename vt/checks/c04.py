"""C04 - PWLCalibration weight constraint returns keypoint outputs meeting its limits.

E1, packed in the unit axis: all words of the kernel alphabet for every
enumerated PWL configuration through PWLCalibrationConstraints and through the
real layer's kernel constraint (+ NaiveBoundsConstraints for the missing output).
"""
import itertools

import numpy as np

from vt.core import alpha, bind, pool

ID = "C04"
LEVEL = "exploration"
REL = 2e-5
GUARD = 5.0

KEYPOINTS = [[0.0, 1.0], [0.0, 1.0, 2.0], [0.0, 1.0, 3.0], [0.0, 0.1, 1.0, 4.0],
             [0.0, 1.0, 2.0, 3.0, 4.0]]
BOUNDS = [(None, None), (0.0, None), (None, 1.0), (0.0, 1.0), (-1.0, 2.0), (None, 0.0), (-1.0, 0.0)]


def configs(tier, seed=0):
  quick = tier == "quick"
  its = [0, 1, 2, 8] if quick else [0, 1, 2, 3, 8, 32, 100]
  kps = KEYPOINTS if quick else KEYPOINTS + [[-2.0, -1.5, 0.0, 0.01, 5.0], [1.0, 2.0, 4.0, 8.0, 16.0, 32.0]]
  out = []
  for kp in kps:
    for mono, conv in itertools.product([0, 1, -1], [0, 1, -1]):
      for lo, hi in BOUNDS:
        clamps = [(False, False)]
        if mono != 0:
          if lo is not None:
            clamps.append((True, False))
          if hi is not None:
            clamps.append((False, True))
          if lo is not None and hi is not None:
            clamps.append((True, True))
        for cmin, cmax in clamps:
          for it in its:
            for via in ("constraint", "layer"):
              if via == "layer" and quick and it not in (2, 8):
                continue
              out.append(dict(kp=kp, mono=mono, conv=conv, lo=lo, hi=hi, cmin=cmin,
                              cmax=cmax, iters=it, via=via, cyclic=False))
    # clamps on a calibrator that is NOT monotonic: the library documents "Clamping is not implemented
    # for non monotonic functions" and refuses (ValueError) - accepted here; if a projection is
    # returned instead, it has to reach the clamped bound like any other configuration
    for lo, hi, cmin, cmax in ((0.0, 1.0, True, False), (0.0, 1.0, False, True), (-1.0, 2.0, True, True),
                               (0.0, None, True, False), (None, 1.0, False, True)):
      for via in ("constraint", "layer"):
        out.append(dict(kp=kp, mono=0, conv=0, lo=lo, hi=hi, cmin=cmin, cmax=cmax, iters=8, via=via,
                        cyclic=False, refusal_ok=True))
    # cyclic: only without monotonicity/convexity; only through the layer
    for lo, hi in BOUNDS:
      if len(kp) >= 3:
        out.append(dict(kp=kp, mono=0, conv=0, lo=lo, hi=hi, cmin=False, cmax=False,
                        iters=8, via="layer", cyclic=True))
  return alpha.rotate(out, seed)


def kernel_space(n, tier):
  """All words; bias far outside bounds and heights of the wrong sign included."""
  if n <= 4:
    base = alpha.words(alpha.A6, n)
  elif n == 5:
    base = alpha.words(alpha.A3 if tier == "quick" else alpha.A5, n)
  else:
    base = alpha.words(alpha.A3, n)
  K = alpha.images(base, ((1.0, 0.0), (1e3, 0.0), (1e-3, 0.0)))
  # bias images +-5 (only the bias row is shifted: outputs move as a whole)
  for t in (5.0, -5.0):
    Kb = base.copy()
    Kb[0] += t
    K = np.concatenate([K, Kb], axis=1)
  return K.astype(np.float32).astype(np.float64)


def apply_constraint(cfg, K):
  tf, tfl = bind.bind()
  from tensorflow_lattice.python import pwl_calibration_layer as pl
  from tensorflow_lattice.python import pwl_calibration_lib as plib
  kp = np.array(cfg["kp"], dtype=np.float64)
  K32 = np.asarray(K, dtype=np.float32)
  if cfg["via"] == "constraint":
    lo, hi, loc, hic = plib.convert_all_constraints(cfg["lo"], cfg["hi"], cfg["cmin"], cfg["cmax"])
    c = pl.PWLCalibrationConstraints(
        monotonicity=cfg["mono"], convexity=cfg["conv"],
        lengths=tf.constant(kp[1:] - kp[:-1], dtype=tf.float32),
        output_min=cfg["lo"], output_max=cfg["hi"],
        output_min_constraints=loc, output_max_constraints=hic,
        num_projection_iterations=cfg["iters"])
    out = np.asarray(c(tf.constant(K32)), dtype=np.float64)
    return out, np.cumsum(out, axis=0)
  layer = pl.PWLCalibration(
      input_keypoints=kp.astype(np.float32), units=K32.shape[1], output_min=cfg["lo"],
      output_max=cfg["hi"], clamp_min=cfg["cmin"], clamp_max=cfg["cmax"],
      monotonicity=cfg["mono"], convexity=cfg["conv"], is_cyclic=cfg["cyclic"],
      num_projection_iterations=cfg["iters"])
  layer.build((None, 1))
  layer.kernel.assign(layer.kernel.constraint(tf.constant(K32)))
  return (np.asarray(layer.kernel.numpy(), dtype=np.float64),
          np.asarray(layer.keypoints_outputs(), dtype=np.float64))


def _bkind(cfg, side):
  """near = the bound a monotone function starts from, far = the one it moves to."""
  if cfg["mono"] == 0:
    return "bounds"
  far = "hi" if cfg["mono"] == 1 else "lo"
  return "bounds-far" if side == far else "bounds-near"


def judge(cfg, Kin, Kout, outs):
  kp = np.array(cfg["kp"], dtype=np.float64)
  lengths = kp[1:] - kp[:-1]
  B = Kin.shape[1]
  res = []
  if Kout.shape != Kin.shape or not np.all(np.isfinite(Kout)):
    return [(0, "nonfinite-or-shape", "output shape %s / non-finite" % (Kout.shape,))], np.zeros(B, bool)
  cin = np.cumsum(Kin, axis=0)
  S = np.maximum(1.0, np.abs(cin).max(axis=0))
  S = np.maximum(S, np.abs(Kin).max(axis=0))
  for b in (cfg["lo"], cfg["hi"]):
    if b is not None:
      S = np.maximum(S, abs(b))
  tol = REL * GUARD * S
  mono, conv = cfg["mono"], cfg["conv"]
  hin, hout = Kin[1:], Kout[1:]
  if cfg["cyclic"]:
    # closing height makes all heights sum to zero
    hin = np.concatenate([hin, -hin.sum(axis=0, keepdims=True)], axis=0)
    hout = np.concatenate([hout, -hout.sum(axis=0, keepdims=True)], axis=0)
  # --- monotone direction: exact
  if mono != 0:
    bad = np.where((hout * mono).min(axis=0) < 0)[0]
    if len(bad):
      c = int(bad[0])
      res.append((c, "monotonicity", "height %.6g has the wrong sign (exact check)" %
                  (hout[:, c] * mono).min()))
  # --- bounds on keypoint outputs
  if cfg["lo"] is not None:
    bad = np.where(outs.min(axis=0) < cfg["lo"] - tol)[0]
    if len(bad):
      c = int(bad[0])
      res.append((c, _bkind(cfg, "lo"), "keypoint output %.6g < output_min %s" % (outs[:, c].min(), cfg["lo"])))
  if cfg["hi"] is not None:
    bad = np.where(outs.max(axis=0) > cfg["hi"] + tol)[0]
    if len(bad):
      c = int(bad[0])
      res.append((c, _bkind(cfg, "hi"), "keypoint output %.6g > output_max %s" % (outs[:, c].max(), cfg["hi"])))
  # --- convexity (tolerated residual: bounds without monotonicity)
  bounded = cfg["lo"] is not None or cfg["hi"] is not None
  if conv != 0 and not (bounded and mono == 0) and hout.shape[0] >= 2:
    slopes = hout / lengths[:, None]
    d = (slopes[1:] - slopes[:-1]) * conv
    tols = tol / lengths.min()
    bad = np.where(d.min(axis=0) < -tols)[0]
    if len(bad):
      c = int(bad[0])
      res.append((c, "convexity", "slope sequence %s is not %s" %
                  (np.round(slopes[:, c], 6).tolist(), "convex" if conv == 1 else "concave")))
  # --- clamps (tolerated residual: together with convexity)
  if conv == 0:
    if cfg["cmin"]:
      bad = np.where(np.abs(outs.min(axis=0) - cfg["lo"]) > tol)[0]
      if len(bad):
        c = int(bad[0])
        res.append((c, "clamp", "clamp_min: min keypoint output %.6g != %s" % (outs[:, c].min(), cfg["lo"])))
    if cfg["cmax"]:
      bad = np.where(np.abs(outs.max(axis=0) - cfg["hi"]) > tol)[0]
      if len(bad):
        c = int(bad[0])
        res.append((c, "clamp", "clamp_max: max keypoint output %.6g != %s" % (outs[:, c].max(), cfg["hi"])))
  # --- feasible -> unchanged
  oin = np.cumsum(Kin, axis=0)
  if cfg["cyclic"]:
    oin = np.concatenate([oin, oin[0:1]], axis=0)
  feas = np.ones(B, bool)
  if mono != 0:
    feas &= (hin * mono).min(axis=0) >= 0
  if conv != 0 and hin.shape[0] >= 2:
    s = hin / lengths[:, None]
    feas &= ((s[1:] - s[:-1]) * conv).min(axis=0) >= 0
  if cfg["lo"] is not None:
    feas &= oin.min(axis=0) >= cfg["lo"]
    if cfg["cmin"]:
      feas &= oin.min(axis=0) == cfg["lo"]
  if cfg["hi"] is not None:
    feas &= oin.max(axis=0) <= cfg["hi"]
    if cfg["cmax"]:
      feas &= oin.max(axis=0) == cfg["hi"]
  moved = np.abs(Kout - Kin).max(axis=0)
  bad = np.where(feas & (moved > tol))[0]
  if len(bad):
    c = int(bad[0])
    res.append((c, "unchanged", "feasible kernel %s moved by %.6g" % (Kin[:, c].tolist(), moved[c])))
  return res, feas


def cfg_sig(cfg):
  return dict(mono=int(cfg["mono"] != 0), conv=int(cfg["conv"] != 0),
              upper=int(cfg["hi"] is not None), lower=int(cfg["lo"] is not None),
              clamp=int(cfg["cmin"] or cfg["cmax"]), iters0=int(cfg["iters"] == 0),
              cyclic=int(cfg["cyclic"]))


def far_side(cfg):
  """A bound on the side the monotone function moves towards."""
  return int((cfg["mono"] == 1 and cfg["hi"] is not None) or
             (cfg["mono"] == -1 and cfg["lo"] is not None))


def replay(case):
  if case.get("kind") == "missing":
    return _missing(case["lo"], case["hi"], case["values"])
  cfg = case["cfg"]
  K = np.asarray(case["kernel"], dtype=np.float64)
  if K.ndim == 1:
    K = K[:, None]
  try:
    Kout, outs = apply_constraint(cfg, K)
  except ValueError as e:
    if cfg.get("refusal_ok") and "not implemented for non monotonic" in str(e):
      return None
    raise
  res, _ = judge(cfg, K, Kout, outs)
  want = case.get("violated")
  msgs = [m for _, k, m in res if want is None or k == want] or [m for _, _, m in res]
  return "; ".join(msgs) or None


def _missing(lo, hi, values):
  tf, tfl = bind.bind()
  from tensorflow_lattice.python import pwl_calibration_layer as pl
  c = pl.NaiveBoundsConstraints(lower_bound=lo, upper_bound=hi)
  v = np.asarray(values, dtype=np.float32).reshape(1, -1)
  o = np.asarray(c(tf.constant(v)), dtype=np.float64)
  ref = v.astype(np.float64)
  if lo is not None:
    ref = np.maximum(ref, lo)
  if hi is not None:
    ref = np.minimum(ref, hi)
  if np.abs(o - ref).max() > 1e-5 * max(1, np.abs(v).max()):
    return "missing output constraint maps %s to %s, expected %s" % (v.tolist(), o.tolist(), ref.tolist())
  # the constraint the real layer attaches to its learned missing output
  layer = pl.PWLCalibration(input_keypoints=np.array([0.0, 1.0], dtype=np.float32), units=v.shape[1],
                            output_min=lo, output_max=hi, impute_missing=True, missing_input_value=-1.0)
  layer.build((None, 1))
  c2 = layer.missing_output.constraint
  o2 = v.astype(np.float64) if c2 is None else np.asarray(c2(tf.constant(v)), dtype=np.float64)
  if np.abs(o2 - ref).max() > 1e-5 * max(1, np.abs(v).max()):
    return "the layer's missing-output constraint maps %s to %s, expected %s within [%s, %s]" % (
        v.tolist(), o2.tolist(), ref.tolist(), lo, hi)
  return None


def work(ctx, cfg):
  if cfg.get("kind") == "missing":
    vals = list(alpha.A6) + [1e3, -1e3, 5.0, -5.0, 1e-3]
    msg = _missing(cfg["lo"], cfg["hi"], vals)
    ctx.add(evaluations=len(vals), nontrivial=len(vals) - 2, traces=len(vals))
    if msg:
      ctx.violation(dict(violated="missing-output-bounds"), dict(cfg, values=vals), msg)
    return
  n = len(cfg["kp"]) - (1 if cfg["cyclic"] else 0)
  Kin = kernel_space(n, ctx.tier)
  try:
    Kout, outs = apply_constraint(cfg, Kin)
  except ValueError as e:
    if cfg.get("refusal_ok") and "not implemented for non monotonic" in str(e):
      ctx.add(evaluations=1, traces=1)
      ctx.tab("outcome", "clamp_without_monotonicity_refused")
      return
    raise
  res, feas = judge(cfg, Kin, Kout, outs)
  changed = np.abs(Kout - Kin).max(axis=0) > 0
  ctx.add(evaluations=Kin.shape[1], nontrivial=int(changed.sum()), traces=Kin.shape[1])
  ctx.tab("configs_by_iters", cfg["iters"])
  ctx.tab("configs_by_via", cfg["via"] + ("_cyclic" if cfg["cyclic"] else ""))
  ctx.tab("configs_by_shape", "mono%d_conv%d" % (cfg["mono"], cfg["conv"]))
  ctx.tab("outcome", "feasible_input_columns", int(feas.sum()))
  ctx.tab("outcome", "projection_changed_columns", int(changed.sum()))
  if changed.any():
    c = int(np.argmax(changed))
    ctx.sample(dict(cfg=cfg, kernel_in=Kin[:, c].tolist(), kernel_out=np.round(Kout[:, c], 6).tolist()), limit=4)
  for col, kind, msg in res:
    case = dict(cfg=cfg, kernel=Kin[:, col].tolist(), violated=kind)
    sig = cfg_sig(cfg)
    sig["violated"] = kind
    alone = None
    try:
      alone = replay(case)
    except Exception as e:  # pylint: disable=broad-except
      alone = "exception when re-executed alone: %r" % (e,)
    if alone:
      ctx.violation(sig, case, alone)
    else:
      sig["packed_only"] = 1
      lo, hi = max(0, col - 1), min(Kin.shape[1], col + 2)
      ctx.violation(sig, dict(cfg=cfg, kernel=Kin[:, lo:hi].tolist(), violated=kind),
                    "only in a multi-unit kernel: " + msg)


def run(ctx):
  items = configs(ctx.tier, ctx.seed)
  for lo, hi in BOUNDS:
    items.append(dict(kind="missing", lo=lo, hi=hi))
  ctx.rule = (
      "for every enumerated PWL configuration (keypoint vectors x monotonicity x convexity x "
      "bounds x clamps x cyclic x iterations x {constraint object, real layer}) ALL kernel words "
      "over {-2,-1,0,.5,1,3}^n (n<=4; {-1,0,1}^5) and their images (x1e3, x1e-3, bias+-5) are "
      "projected by the real code, packed in the unit axis, candidates re-run alone. "
      "Non-trivial = kernel actually changed by the projection.")
  ctx.assumptions += ["float32; tolerance 1e-4*max(1,|outputs|,|bounds|)",
                      "tolerated by the property and not checked: convexity residual with bounds "
                      "but no monotonicity; clamp residual together with convexity"]
  pool.pmap(ctx, "vt.checks.c04", "work", items)
