"""C06 - Linear / categorical weight constraints: signs, orderings, dominance, norm."""
import itertools

import numpy as np

from vt.core import alpha, bind, pool

ID = "C06"
LEVEL = "exploration"
REL = 2e-5
GUARD = 5.0
RANGES = [(0.0, 1.0), (0.0, 2.0), (-1.0, 3.0)]
_DAGS = {}


def dags(k):
  if k not in _DAGS:
    _DAGS[k] = alpha.all_dags(k)
  return _DAGS[k]


def linear_configs(tier):
  quick = tier == "quick"
  out = []
  for n in ((1, 2, 3) if quick else (1, 2, 3, 4)):
    for mono in itertools.product([0, 1, -1], repeat=n):
      inc = [i for i in range(n) if mono[i] == 1]
      dec = [i for i in range(n) if mono[i] == -1]
      dom_sets = [dict(md=(), rd=(), shift=0)]
      # monotonic dominance: every DAG on the increasing inputs
      for g in dags(len(inc)):
        if g:
          dom_sets.append(dict(md=tuple((inc[a], inc[b]) for a, b in g), rd=(), shift=0))
      # range dominance: every DAG on each same-direction group
      for grp in (inc, dec):
        for g in dags(len(grp)):
          if g:
            for shift in ((0, 1, 2) if len(grp) <= 3 else (0,)):
              dom_sets.append(dict(md=(), rd=tuple((grp[a], grp[b]) for a, b in g), shift=shift))
      # both kinds on disjoint inputs (needs >= 4 same-direction-capable inputs)
      if len(inc) >= 4:
        dom_sets.append(dict(md=((inc[0], inc[1]),), rd=((inc[2], inc[3]),), shift=1))
        dom_sets.append(dict(md=((inc[1], inc[0]),), rd=((inc[3], inc[2]),), shift=2))
      if len(inc) >= 2 and len(dec) >= 2:
        dom_sets.append(dict(md=((inc[0], inc[1]),), rd=((dec[0], dec[1]),), shift=0))
      for ds in dom_sets:
        for norm in (None, 1, 2):
          out.append(dict(kind="linear", n=n, mono=list(mono), md=[list(p) for p in ds["md"]],
                          rd=[list(p) for p in ds["rd"]], shift=ds["shift"], norm=norm))
          # the same configuration with the documented string spellings, and with the pairs
          # listed in reverse order (the projection sorts topologically: order must not matter)
          if norm in (None, 1):
            out.append(dict(kind="linear", n=n, mono=list(mono), md=[list(p) for p in ds["md"]],
                            rd=[list(p) for p in ds["rd"]], shift=ds["shift"], norm=norm, spell="str"))
          if len(ds["md"]) + len(ds["rd"]) >= 2 and norm is None:
            out.append(dict(kind="linear", n=n, mono=list(mono), md=[list(p) for p in ds["md"]][::-1],
                            rd=[list(p) for p in ds["rd"]][::-1], shift=ds["shift"], norm=norm))
  if quick:
    # both dominance kinds in ONE constraint need >= 4 inputs: a few n=4 configurations in quick too
    for mono, md, rd, shift in (([1, 1, 1, 1], [(0, 1)], [(2, 3)], 1), ([1, 1, 1, 1], [(1, 0)], [(3, 2)], 2),
                                ([1, 1, -1, -1], [(0, 1)], [(2, 3)], 0), ([-1, -1, 1, 1], [(3, 2)], [(0, 1)], 1),
                                ([1, 1, 1, 1], [(0, 1)], [(3, 2)], 0)):
      for norm in (None, 1):
        out.append(dict(kind="linear", n=4, mono=list(mono), md=[list(p) for p in md],
                        rd=[list(p) for p in rd], shift=shift, norm=norm))
  return out


def cat_configs(tier):
  out = []
  for nb in (2, 3, 4):
    for g in dags(nb):
      for lo, hi in ((None, None), (-0.5, None), (None, 0.75), (-0.5, 0.75), (0.0, None), (None, 0.0)):
        if tier == "quick" and nb == 4 and (lo is None) != (hi is None):
          continue
        out.append(dict(kind="cat", nb=nb, pairs=[list(p) for p in g], lo=lo, hi=hi))
        if len(g) >= 2 and lo is None and hi is None:
          out.append(dict(kind="cat", nb=nb, pairs=[list(p) for p in g][::-1], lo=lo, hi=hi))
  return out


def ranges_for(cfg):
  n = cfg["n"]
  return [RANGES[(i + cfg["shift"]) % 3] for i in range(n)]


def apply_linear(cfg, W):
  tf, tfl = bind.bind()
  from tensorflow_lattice.python import linear_layer
  mono_arg = list(cfg["mono"])
  if cfg.get("spell") == "str":
    mono_arg = [{1: "increasing", -1: "decreasing", 0: "none"}[m] for m in mono_arg]
  kw = dict(monotonicities=mono_arg, normalization_order=cfg["norm"])
  if cfg["md"]:
    kw["monotonic_dominances"] = [tuple(p) for p in cfg["md"]]
  if cfg["rd"]:
    kw["range_dominances"] = [tuple(p) for p in cfg["rd"]]
    r = ranges_for(cfg)
    kw["input_min"] = [a for a, _ in r]
    kw["input_max"] = [b for _, b in r]
  c = linear_layer.LinearConstraints(**kw)
  return np.asarray(c(tf.constant(np.asarray(W, dtype=np.float32))), dtype=np.float64)


def apply_cat(cfg, W):
  tf, tfl = bind.bind()
  from tensorflow_lattice.python import categorical_calibration_layer as cl
  c = cl.CategoricalCalibrationConstraints(
      output_min=cfg["lo"], output_max=cfg["hi"],
      monotonicities=[tuple(p) for p in cfg["pairs"]] or None)
  return np.asarray(c(tf.constant(np.asarray(W, dtype=np.float32))), dtype=np.float64)


def judge_linear(cfg, Win, Wout):
  n, B = Win.shape
  res = []
  if Wout.shape != Win.shape or not np.all(np.isfinite(Wout)):
    return [(0, "nonfinite-or-shape", "shape %s / non-finite output" % (Wout.shape,))], np.zeros(B, bool)
  mono = np.array(cfg["mono"], dtype=np.float64)[:, None]
  S = np.maximum(1.0, np.abs(Win).max(axis=0))
  scal = np.ones(n)
  if cfg["rd"]:
    r = ranges_for(cfg)
    scal = np.array([(b - a) for a, b in r])
  tol = REL * GUARD * S * scal.max()
  if cfg["norm"]:
    tol = np.maximum(tol, REL * GUARD)  # normalised outputs are O(1)
  sgn = (Wout * mono).min(axis=0)
  bad = np.where(sgn < -tol)[0]
  if len(bad):
    c = int(bad[0])
    res.append((c, "sign", "weights %s violate monotonicities %s" % (Wout[:, c].tolist(), cfg["mono"])))
  for d, w in cfg["md"]:
    bad = np.where(Wout[d] - Wout[w] < -tol)[0]
    if len(bad):
      c = int(bad[0])
      res.append((c, "monotonic-dominance", "w[%d]=%.6g < w[%d]=%.6g" % (d, Wout[d, c], w, Wout[w, c])))
      break
  for d, w in cfg["rd"]:
    sd = scal[d] * (-1.0 if cfg["mono"][d] == -1 else 1.0)
    sw = scal[w] * (-1.0 if cfg["mono"][w] == -1 else 1.0)
    bad = np.where(sd * Wout[d] - sw * Wout[w] < -tol)[0]
    if len(bad):
      c = int(bad[0])
      res.append((c, "range-dominance", "range effect of dominant %d (%.6g) < weak %d (%.6g)" %
                  (d, sd * Wout[d, c], w, sw * Wout[w, c])))
      break
  if cfg["norm"]:
    nrm = np.linalg.norm(Wout, ord=cfg["norm"], axis=0)
    ok = (np.abs(nrm - 1.0) <= 1e-4) | (nrm < 2e-8)
    bad = np.where(~ok)[0]
    if len(bad):
      c = int(bad[0])
      res.append((c, "norm", "L%d norm of output column is %.8g (neither 1 nor numerically 0); "
                  "input %s" % (cfg["norm"], nrm[c], Win[:, c].tolist())))
  # feasible -> unchanged
  feas = (Win * mono).min(axis=0) >= 0
  for d, w in cfg["md"]:
    feas &= Win[d] >= Win[w]
  for d, w in cfg["rd"]:
    sd = scal[d] * (-1.0 if cfg["mono"][d] == -1 else 1.0)
    sw = scal[w] * (-1.0 if cfg["mono"][w] == -1 else 1.0)
    feas &= sd * Win[d] >= sw * Win[w]
  if cfg["norm"]:
    nin = np.linalg.norm(Win, ord=cfg["norm"], axis=0)
    feas &= (np.abs(nin - 1.0) < 1e-7) | (nin < 1e-9)
  moved = np.abs(Wout - Win).max(axis=0)
  bad = np.where(feas & (moved > tol))[0]
  if len(bad):
    c = int(bad[0])
    res.append((c, "unchanged", "feasible weights %s moved by %.6g" % (Win[:, c].tolist(), moved[c])))
  return res, feas


def judge_cat(cfg, Win, Wout):
  B = Win.shape[1]
  res = []
  if Wout.shape != Win.shape or not np.all(np.isfinite(Wout)):
    return [(0, "nonfinite-or-shape", "shape %s / non-finite output" % (Wout.shape,))], np.zeros(B, bool)
  S = np.maximum(1.0, np.abs(Win).max(axis=0))
  tol = REL * GUARD * S
  for i, j in cfg["pairs"]:
    bad = np.where(Wout[j] - Wout[i] < -tol)[0]
    if len(bad):
      c = int(bad[0])
      res.append((c, "ordering", "pair (%d,%d): out[%d]=%.6g > out[%d]=%.6g for input %s" %
                  (i, j, i, Wout[i, c], j, Wout[j, c], Win[:, c].tolist())))
      break
  if cfg["lo"] is not None:
    bad = np.where(Wout.min(axis=0) < cfg["lo"] - tol)[0]
    if len(bad):
      res.append((int(bad[0]), "bounds", "value below output_min"))
  if cfg["hi"] is not None:
    bad = np.where(Wout.max(axis=0) > cfg["hi"] + tol)[0]
    if len(bad):
      res.append((int(bad[0]), "bounds", "value above output_max"))
  feas = np.ones(B, bool)
  for i, j in cfg["pairs"]:
    feas &= Win[j] >= Win[i]
  if cfg["lo"] is not None:
    feas &= Win.min(axis=0) >= cfg["lo"]
  if cfg["hi"] is not None:
    feas &= Win.max(axis=0) <= cfg["hi"]
  moved = np.abs(Wout - Win).max(axis=0)
  bad = np.where(feas & (moved > tol))[0]
  if len(bad):
    c = int(bad[0])
    res.append((c, "unchanged", "feasible values %s moved by %.6g" % (Win[:, c].tolist(), moved[c])))
  return res, feas


def weight_space(n):
  base = alpha.words(alpha.A6, n)
  W = np.concatenate([base, 1e3 * base, 1e-3 * base, 1e-6 * base, 1e-9 * base, base + 5.0,
                      base - 5.0], axis=1)
  return W.astype(np.float32).astype(np.float64)


def _apply_judge(cfg, W):
  if cfg["kind"] == "linear":
    out = apply_linear(cfg, W)
    return out, judge_linear(cfg, W, out)
  out = apply_cat(cfg, W)
  return out, judge_cat(cfg, W, out)


def replay(case):
  cfg = case["cfg"]
  W = np.asarray(case["weights"], dtype=np.float64)
  if W.ndim == 1:
    W = W[:, None]
  _, (res, _) = _apply_judge(cfg, W)
  want = case.get("violated")
  msgs = [m for _, k, m in res if want is None or k == want] or [m for _, _, m in res]
  return "; ".join(msgs) or None


def work(ctx, cfg):
  n = cfg["n"] if cfg["kind"] == "linear" else cfg["nb"]
  W = weight_space(n)
  out, (res, feas) = _apply_judge(cfg, W)
  changed = np.abs(out - W).max(axis=0) > 0
  ctx.add(evaluations=W.shape[1], nontrivial=int(changed.sum()), traces=W.shape[1])
  ctx.tab("configs_by_kind", cfg["kind"])
  if cfg["kind"] == "linear":
    ctx.tab("linear_configs", "md%d_rd%d_norm%s" % (len(cfg["md"]), len(cfg["rd"]), cfg["norm"]))
  else:
    ctx.tab("categorical_configs", "buckets%d_pairs%d" % (cfg["nb"], len(cfg["pairs"])))
  ctx.tab("outcome", "feasible_input_columns", int(feas.sum()))
  ctx.tab("outcome", "projection_changed_columns", int(changed.sum()))
  if changed.any():
    c = int(np.argmax(changed))
    ctx.sample(dict(cfg=cfg, weights_in=W[:, c].tolist(), weights_out=np.round(out[:, c], 6).tolist()), limit=4)
  for col, kind, msg in res:
    case = dict(cfg=cfg, weights=W[:, col].tolist(), violated=kind)
    sig = dict(kind=cfg["kind"], violated=kind)
    if cfg["kind"] == "linear":
      sig.update(norm=str(cfg["norm"]), md=int(bool(cfg["md"])), rd=int(bool(cfg["rd"])))
    else:
      sig.update(bounded=int(cfg["lo"] is not None or cfg["hi"] is not None))
    alone = None
    try:
      alone = replay(case)
    except Exception as e:  # pylint: disable=broad-except
      alone = "exception when re-executed alone: %r" % (e,)
    if alone:
      ctx.violation(sig, case, alone)
    else:
      sig["packed_only"] = 1
      lo, hi = max(0, col - 1), min(W.shape[1], col + 2)
      ctx.violation(sig, dict(cfg=cfg, weights=W[:, lo:hi].tolist(), violated=kind),
                    "only in a multi-unit weight matrix: " + msg)


def run(ctx):
  items = alpha.rotate(linear_configs(ctx.tier) + cat_configs(ctx.tier), ctx.seed)
  ctx.rule = (
      "Linear: all monotonicity vectors in {-1,0,1}^n (n<=3 quick, 4 thorough) x every acyclic "
      "monotonic-dominance graph on the increasing inputs / every acyclic range-dominance graph on "
      "same-direction inputs (3 range assignments) x norm {None,1,2}; categorical: every DAG of "
      "ordering pairs on 2-4 buckets x bounds. Weights: all words of {-2,-1,0,.5,1,3}^n and images "
      "(x1e3, x1e-3, x1e-6, x1e-9, +-5), packed in the unit axis, candidates re-run alone. Non-trivial = weights "
      "changed by the projection.")
  ctx.assumptions += ["float32; tolerance 1e-4*max(1,|w|)*max range", "n<=4 inputs/buckets"]
  pool.pmap(ctx, "vt.checks.c06", "work", items)
