"""C18 - Computed calibration keypoints are valid for every data sample."""
import itertools

import numpy as np

from vt.core import alpha, bind, pool

ID = "C18"
LEVEL = "exploration"
LETTERS = (0.0, 1.0, 2.0, 5.0)
CLIPS = [("none", None, None), ("min", 1.0, None), ("max", None, 2.0), ("both", 1.0, 2.0),
         ("nonbinding", -1.0, 9.0), ("collapsing", 7.0, 8.0), ("minfrac", 0.5, None),
         ("zero-min", 0.0, None), ("zero-both", 0.0, 2.0), ("zero-max", -1.0, 0.0),
         ("bothfrac", 0.5, 4.5)]
# clip modes also run on the same data held in an integer array (ids, counts, ratings)
INT_CLIPS = ("none", "minfrac", "both", "bothfrac")


def value_arrays(maxlen):
  for n in range(1, maxlen + 1):
    for w in itertools.product(LETTERS, repeat=n):
      yield np.array(w, dtype=np.float64)


def weight_vectors(n, tier):
  out = [("none", None), ("ones", np.ones(n))]
  if n <= (4 if tier == "quick" else 5):
    for w in itertools.product((1.0, 3.0), repeat=n):
      if len(set(w)) > 1:
        out.append(("w13", np.array(w)))
  else:
    out.append(("w13", np.array([1.0, 3.0] * n)[:n]))
    out.append(("w13", np.array([3.0, 1.0, 1.0] * n)[:n]))
  return out


def expected_distinct(values, clip_min, clip_max, default):
  v = values[values != default] if default is not None else values
  if clip_min is not None:
    v = np.append(np.maximum(v, clip_min), clip_min)
  if clip_max is not None:
    v = np.append(np.minimum(v, clip_max), clip_max)
  return np.unique(v)


def judge(values, nk, mode, clip_min, clip_max, default, weights, reduction, result, err):
  """Returns (kind, message) or None."""
  U = expected_distinct(values, clip_min, clip_max, default)
  if len(U) == 0:
    return None  # no data at all after removing the default: outside the property
  if err is not None:
    return ("raises", "compute_keypoints raised %s" % err)
  kp = np.asarray(result, dtype=np.float64)
  if kp.ndim != 1 or not np.all(np.isfinite(kp)):
    return ("nonfinite", "result %s" % (kp,))
  if mode == "quantiles":
    want = nk if len(U) >= nk else len(U)
  else:
    want = nk
  if len(kp) != want:
    return ("count", "%d keypoints returned, expected %d (distinct clipped values %s)" %
            (len(kp), want, U.tolist()))
  if len(U) >= 2 and not np.all(np.diff(kp) > 0):
    return ("not-strictly-increasing", "keypoints %s (distinct clipped values %s)" %
            (kp.tolist(), U.tolist()))
  if kp.min() < U[0] - 1e-9 or kp.max() > U[-1] + 1e-9:
    return ("out-of-range", "keypoints %s leave the clipped data range [%s, %s]" %
            (kp.tolist(), U[0], U[-1]))
  if len(kp) >= 2 and (abs(kp[0] - U[0]) > 1e-9 or abs(kp[-1] - U[-1]) > 1e-9):
    return ("ends", "first/last keypoint %s/%s differ from clip bounds / data extremes %s/%s" %
            (kp[0], kp[-1], U[0], U[-1]))
  if mode == "quantiles" and not np.all(np.isin(kp, U)):
    return ("not-observed-value", "quantile keypoints %s are not observed values %s" %
            (kp.tolist(), U.tolist()))
  return None


def call(values, nk, mode, clip_min, clip_max, default, weights, reduction, dtype=np.float64):
  tf, tfl = bind.bind()
  from tensorflow_lattice.python import premade_lib
  try:
    r = premade_lib.compute_keypoints(
        np.array(values, dtype=dtype), num_keypoints=nk, keypoints=mode, clip_min=clip_min,
        clip_max=clip_max, default_value=default,
        weights=None if weights is None else np.array(weights, dtype=np.float64),
        weight_reduction=reduction, feature_name="f")
    return r, None
  except Exception as e:  # pylint: disable=broad-except
    return None, "%s: %s" % (type(e).__name__, str(e)[:160])


def pwl_accepts(kp):
  tf, tfl = bind.bind()
  try:
    tfl.layers.PWLCalibration(input_keypoints=np.asarray(kp))
    return None
  except Exception as e:  # pylint: disable=broad-except
    return "%s: %s" % (type(e).__name__, str(e)[:160])


def replay(case):
  if case.get("kind") == "helper":
    return helper_case(case)
  v = np.array(case["values"], dtype=np.float64)
  w = None if case["weights"] is None else np.array(case["weights"], dtype=np.float64)
  r, err = call(v, case["nk"], case["mode"], case["clip_min"], case["clip_max"], case["default"],
                w, case["reduction"])
  j = judge(v, case["nk"], case["mode"], case["clip_min"], case["clip_max"], case["default"], w,
            case["reduction"], r, err)
  if j:
    return j[1]
  if w is None and r is not None:
    ri, erri = call(v, case["nk"], case["mode"], case["clip_min"], case["clip_max"], case["default"],
                    w, case["reduction"], dtype=np.int64)
    if ri is None or np.shape(ri) != np.shape(r) or not np.allclose(np.asarray(ri, dtype=np.float64), r, rtol=0, atol=1e-9):
      return "integer-typed data gives %s, float data %s" % (erri if ri is None else np.asarray(ri).tolist(),
                                                               np.asarray(r).tolist())
  U = expected_distinct(v, case["clip_min"], case["clip_max"], case["default"])
  if len(U) >= 2 and r is not None:
    e = pwl_accepts(r)
    if e:
      return "PWLCalibration rejects the keypoints %s: %s" % (np.asarray(r).tolist(), e)
  return None


def helper_case(case):
  """compute_feature_keypoints / set_feature_keypoints / compute_label_keypoints."""
  tf, tfl = bind.bind()
  from tensorflow_lattice.python import premade_lib
  v = np.array(case["values"], dtype=np.float64)
  fc = tfl.configs.FeatureConfig(
      name="x", pwl_calibration_num_keypoints=case["nk"],
      pwl_calibration_input_keypoints=case["mode"], pwl_calibration_clip_min=case["clip_min"],
      pwl_calibration_clip_max=case["clip_max"], default_value=case["default"])
  cat = tfl.configs.FeatureConfig(name="c", num_buckets=3)
  fixed = tfl.configs.FeatureConfig(name="k", pwl_calibration_input_keypoints=[0.0, 1.0, 4.0])
  feats = {"x": v, "c": np.zeros(len(v)), "k": v}
  try:
    kps = premade_lib.compute_feature_keypoints([fc, cat, fixed], feats)
  except Exception as e:  # pylint: disable=broad-except
    U = expected_distinct(v, case["clip_min"], case["clip_max"], case["default"])
    if len(U) == 0:
      return None
    return "compute_feature_keypoints raised %s: %s" % (type(e).__name__, str(e)[:120])
  if "c" in kps:
    return "categorical feature received keypoints"
  if list(kps.get("k", [])) != [0.0, 1.0, 4.0]:
    return "user-specified keypoints were not passed through"
  j = judge(v, case["nk"], case["mode"], case["clip_min"], case["clip_max"], case["default"], None,
            "mean", kps["x"], None)
  if j:
    return "feature helper: " + j[1]
  premade_lib.set_feature_keypoints([fc, cat, fixed], kps, add_missing_feature_configs=False)
  if not np.array_equal(np.asarray(fc.pwl_calibration_input_keypoints), np.asarray(kps["x"])):
    return "set_feature_keypoints did not store the computed keypoints"
  # labels
  mc = tfl.configs.CalibratedLatticeConfig(
      feature_configs=[fc], output_calibration=True, output_calibration_num_keypoints=case["nk"],
      output_initialization=case["mode"], output_min=case["clip_min"], output_max=case["clip_max"])
  try:
    lk = premade_lib.compute_label_keypoints(mc, v, logits_output=False)
  except Exception as e:  # pylint: disable=broad-except
    return "compute_label_keypoints raised %s: %s" % (type(e).__name__, str(e)[:120])
  j = judge(v, case["nk"], case["mode"], case["clip_min"], case["clip_max"], None, None, "mean",
            lk, None)
  if j:
    return "label helper: " + j[1]
  lg = premade_lib.compute_label_keypoints(mc, v, logits_output=True)
  if len(lg) != case["nk"] or not np.all(np.diff(lg) > 0):
    return "logit label keypoints %s invalid" % (lg,)
  return None


def work_distinct(ctx, item):
  """Second family: ALL subsets of {0..7} (or {0..9}) as distinct sorted values, one value carrying a
  heavy weight at every position (quantiles pile up on it), num_keypoints 2..#values."""
  top = item["top"]
  total = nontriv = 0
  for mask in range(1, 1 << top):
    vals = np.array([v for v in range(top) if mask >> v & 1], dtype=np.float64)
    if len(vals) < 3 or (mask % item["stride"]) != item["phase"]:
      continue
    for heavy in range(len(vals)):
      for hw in (20.0, 3.0):
        w = np.ones(len(vals)); w[heavy] = hw
        for nk in range(2, len(vals) + 1):
          for mode in ("quantiles",):
            for wv in (w, None) if heavy == 0 and hw == 20.0 else (w,):
              r, err = call(vals, nk, mode, None, None, None, wv, "mean")
              total += 1; nontriv += 1
              j = judge(vals, nk, mode, None, None, None, wv, "mean", r, err)
              if j is None and r is not None:
                e = pwl_accepts(r) if total % 7 == 0 else None
                if e:
                  j = ("pwl-rejects", "PWLCalibration rejects %s: %s" % (np.asarray(r).tolist(), e))
              if j:
                ctx.violation(dict(violated=j[0], mode=mode, weighted="heavy" if wv is not None else "none",
                                   clip="none", has_default=0, family="distinct"),
                              dict(values=vals.tolist(), weights=None if wv is None else wv.tolist(), nk=nk,
                                   mode=mode, clip_min=None, clip_max=None, default=None, reduction="mean"), j[1])
  ctx.add(evaluations=total, nontrivial=nontriv, traces=total)
  ctx.tab("distinct_value_family", "subsets_of_%d" % top, total)


def work(ctx, item):
  if item.get("family") == "distinct":
    return work_distinct(ctx, item)
  n, first = item["n"], item["first"]
  head = (first,) + ((item["second"],) if "second" in item else ())
  total = nontriv = accepted = 0
  pwl_checked = set()
  for rest in itertools.product(LETTERS, repeat=n - len(head)):
    values = np.array(head + rest, dtype=np.float64)
    for wname, w in weight_vectors(n, ctx.tier):
      for cname, cmin, cmax in CLIPS:
        for default in (None, 0.0):
          U = expected_distinct(values, cmin, cmax, default)
          for nk in (2, 3, 4, 5):
            for mode in ("quantiles", "uniform"):
              for red in (("mean", "sum") if w is not None and wname == "w13" else ("mean",)):
                r, err = call(values, nk, mode, cmin, cmax, default, w, red)
                total += 1
                if len(U) >= 2:
                  nontriv += 1
                j = judge(values, nk, mode, cmin, cmax, default, w, red, r, err)
                if j is None and w is None and cname in INT_CLIPS:
                  # the same data as an integer array gives the same keypoints
                  ri, erri = call(values, nk, mode, cmin, cmax, default, w, red, dtype=np.int64)
                  total += 1
                  if (ri is None) != (r is None) or (r is not None and (
                      np.shape(ri) != np.shape(r) or not np.allclose(np.asarray(ri, dtype=np.float64), r, rtol=0, atol=1e-9))):
                    j = ("int-dtype", "integer-typed data gives %s, float data %s" % (
                        erri if ri is None else np.asarray(ri).tolist(), err if r is None else np.asarray(r).tolist()))
                if j is None and len(U) >= 2 and r is not None:
                  key = tuple(np.asarray(r).tolist())
                  if key not in pwl_checked:
                    pwl_checked.add(key)
                    e = pwl_accepts(r)
                    accepted += 1
                    if e:
                      j = ("pwl-rejects", "PWLCalibration rejects %s: %s" % (key, e))
                if j:
                  ctx.violation(
                      dict(violated=j[0], mode=mode, weighted=wname, clip=cname,
                           has_default=int(default is not None)),
                      dict(values=values.tolist(), weights=None if w is None else w.tolist(),
                           nk=nk, mode=mode, clip_min=cmin, clip_max=cmax, default=default,
                           reduction=red), j[1])
    # helpers on the same arrays (unweighted)
    for cname, cmin, cmax in CLIPS[:4]:
      for nk, mode, default in ((2, "quantiles", None), (3, "uniform", 0.0), (4, "quantiles", 0.0)):
        case = dict(kind="helper", values=values.tolist(), nk=nk, mode=mode, clip_min=cmin,
                    clip_max=cmax, default=default)
        msg = helper_case(case)
        total += 1
        if msg:
          ctx.violation(dict(violated="helper", mode=mode, clip=cname), case, msg)
  ctx.add(evaluations=total, nontrivial=nontriv, traces=total)
  ctx.tab("arrays_by_length", n, 4 ** (n - len(head)))
  ctx.tab("pwl_acceptance_checks", "distinct_keypoint_vectors", accepted)
  ctx.sample(dict(example_values=[first] + [5.0] * (n - 1), n=n), limit=3)


def run(ctx):
  maxlen = 5 if ctx.quick else 6
  items = [dict(n=n, first=f) for n in range(1, min(maxlen, 4) + 1) for f in LETTERS]
  items += [dict(n=n, first=f, second=g) for n in range(5, maxlen + 1) for f in LETTERS for g in LETTERS]
  top = 8 if ctx.quick else 10
  items += [dict(family="distinct", top=top, stride=8, phase=p) for p in range(8)]
  items = alpha.rotate(items, ctx.seed)
  ctx.rule = (
      "ALL value arrays of length 1..%d over {0,1,2,5} x weights {None, ones, all non-constant words "
      "over {1,3} (len<=4 quick / 5 thorough; two fixed patterns above)} x 7 clip modes (incl. non-binding, collapsing, fractional) x default "
      "{None,0} x num_keypoints 2..5 x {quantiles, uniform} x {mean,sum}; feature/label helpers on "
      "the same arrays. Non-trivial = case whose clipped data has >= 2 distinct values." % maxlen)
  ctx.assumptions += ["zero / negative example weights are outside the enumerated alphabet",
                      "arrays that are empty after removing the default value are skipped"]
  pool.pmap(ctx, "vt.checks.c18", "work", items, chunk=1)
