"""C05 - Calibration layers evaluate exactly the function their weights describe."""
import itertools

import numpy as np

from vt.core import alpha, bind, graph, pool
from vt.ref import pwl as rp

ID = "C05"
LEVEL = "exploration"
TOL = 1e-4

KEYPOINTS = [[0.0, 1.0], [0.0, 1.0, 2.0], [0.0, 1.0, 3.0], [0.0, 0.1, 1.0, 4.0],
             [-1.0, 0.0, 0.5, 2.0, 10.0],
             # features on a very small / very large scale (piece lengths 3e-7 .. 3e6)
             [0.0, 2e-7, 5e-7, 1e-6], [-1e6, 0.0, 3e6]]


# ----------------------------------------------------------------- PWL layer
def pwl_items(tier):
  items = []
  for kp in KEYPOINTS + ([[2.0, 3.0, 5.0, 7.0, 11.0, 13.0]] if tier != "quick" else []):
    for cyclic in (False, True):
      if cyclic and len(kp) < 3:
        continue
      for missing in ("none", "value-learned", "value-fixed", "tensor-learned", "tensor-fixed",
                      "value-fixed0", "tensor-fixed0", "both-learned", "both-fixed"):
        for layout in ("basis-shared", "words-shared", "perunit"):
          for split in (False, True):
            if split and layout != "perunit":
              continue
            items.append(dict(kind="pwl", kp=kp, cyclic=cyclic, missing=missing,
                              layout=layout, split=split))
    for units in (1, 2, 3):
      items.append(dict(kind="learned", kp=kp, units=units))
    # logits so far apart that softmax underflows and a piece gets length exactly 0.0
    items.append(dict(kind="learned", kp=kp, units=1, letters=(-70.0, 0.0, 70.0)))
    # a frozen layer (trainable=False) whose logits are re-assigned between calls (weights restored
    # into an inference-only model): every call must use the current logits
    items.append(dict(kind="learned", kp=kp, units=2, frozen=True))
  return items


def _build_pwl(kp, units, cyclic, missing, split, learned=False):
  tf, tfl = bind.bind()
  kw = {}
  if missing != "none":
    kw["impute_missing"] = True
    if missing.startswith("value") or missing.startswith("both"):
      # a value inside the range (a keypoint!); for the '0' variants the falsy value 0.0 / kp[0]
      kw["missing_input_value"] = float(kp[0] if missing.endswith("0") else kp[1])
    if missing.endswith("fixed"):
      kw["missing_output_value"] = -7.25
    if missing.endswith("fixed0"):
      kw["missing_output_value"] = 0.0   # falsy values must behave like any other value
      kw["output_min"], kw["output_max"] = 1.0, 3.0  # a LEARNED missing output would start at 2.0
  layer = tfl.layers.PWLCalibration(
      input_keypoints=np.array(kp, dtype=np.float32), units=units, is_cyclic=cyclic,
      split_outputs=split, input_keypoints_type="learned_interior" if learned else "fixed",
      **kw)
  layer.build((None, 1))
  if missing.endswith("learned"):
    layer.missing_output.assign(np.full((1, units), 9.5, dtype=np.float32) +
                                np.arange(units, dtype=np.float32)[None, :])
  return layer


def _form_msg(out, split, units, batch):
  """split_outputs=True with units > 1: a list of `units` tensors (batch, 1); else one (batch, units)."""
  if split and units > 1:
    if not isinstance(out, (list, tuple)):
      return "split_outputs=True returned a single tensor of shape %s instead of a list of %d" % (
          tuple(out.shape), units)
    shapes = [tuple(o.shape) for o in out]
    if shapes != [(batch, 1)] * units:
      return "split_outputs=True returned shapes %s, expected %d x (%d, 1)" % (shapes, units, batch)
  elif isinstance(out, (list, tuple)):
    return "a list of %d tensors returned although outputs are not split" % len(out)
  elif tuple(out.shape) != (batch, units):
    return "output shape %s, expected %s" % (tuple(out.shape), (batch, units))
  return None


_LAST_FORM = [None]


def _call(layer, X, ismiss=None):
  tf, _ = bind.bind()
  x = tf.constant(np.asarray(X, dtype=np.float32))
  if ismiss is not None:
    out = layer([x, tf.constant(np.asarray(ismiss, dtype=np.float32))])
  else:
    out = layer(x)
  _LAST_FORM[0] = _form_msg(out, getattr(layer, "split_outputs", False), int(layer.units), int(x.shape[0]))
  if isinstance(out, (list, tuple)):
    out = tf.concat(out, axis=1)
  return np.asarray(out, dtype=np.float64)


def pwl_case(item, ctx=None):
  """Returns message if impl != reference for this configuration."""
  kp, cyclic, missing, layout, split = (item["kp"], item["cyclic"], item["missing"],
                                        item["layout"], item["split"])
  nrows = len(kp) - (1 if cyclic else 0)
  xs = rp.input_points(kp)
  if layout == "basis-shared":
    K = np.eye(nrows)
  elif layout == "words-shared":
    K = alpha.words(alpha.A3, nrows) if nrows <= 4 else alpha.words(alpha.A3, nrows)[:, ::3]
    K = np.concatenate([K, 1e3 * K[:, 1:4], K[:, 1:4] + 5.0], axis=1)
  else:
    K = np.stack([np.arange(nrows, dtype=np.float64) - 1.0,
                  ((np.arange(nrows) * 3 + 1) % 4).astype(np.float64),
                  -np.ones(nrows)], axis=1)
  units = K.shape[1]
  layer = _build_pwl(kp, units, cyclic, missing, split)
  layer.kernel.assign(K.astype(np.float32))
  if layout == "perunit":
    X = np.stack([xs, xs[::-1], np.roll(xs, 3)], axis=1)
  else:
    X = xs[:, None]
  ismiss = None
  miss_mask = np.zeros(X.shape, dtype=bool)
  if missing.startswith("tensor"):
    ismiss = np.zeros(X.shape, dtype=np.float32)
    ismiss[::3] = 1.0
    miss_mask = ismiss > 0
  elif missing.startswith("value"):
    miss_mask = X == np.float32(kp[0] if missing.endswith("0") else kp[1])
  elif missing.startswith("both"):
    # a sentinel value is configured AND an is_missing tensor is passed: an input is missing when
    # it is flagged or equal to missing_input_value (rows 1, 4, 7, ... so that the sentinel row is
    # flagged for some layouts and unflagged for others)
    ismiss = np.zeros(X.shape, dtype=np.float32)
    ismiss[1::3] = 1.0
    miss_mask = (ismiss > 0) | (X == np.float32(kp[1]))
  out = _call(layer, X, ismiss)
  form = _LAST_FORM[0]
  if form:
    return form
  gm = graph.graph_msg(layer, np.asarray(X, dtype=np.float32) if ismiss is None else
                       [np.asarray(X, dtype=np.float32), np.asarray(ismiss, dtype=np.float32)])
  if gm:
    return gm
  # reference
  ref = np.zeros((X.shape[0], units))
  for u in range(units):
    xu = X[:, u] if X.shape[1] > 1 else X[:, 0]
    ref[:, u] = rp.evaluate(kp, K[:, u], xu, cyclic)
    mm = miss_mask[:, u] if miss_mask.shape[1] > 1 else miss_mask[:, 0]
    if missing != "none":
      mo = -7.25 if missing.endswith("fixed") else 0.0 if missing.endswith("fixed0") else 9.5 + u
      ref[mm, u] = mo
  scale = np.maximum(1.0, np.abs(ref))
  err = np.abs(out - ref) / scale
  n_nontrivial = int((ref != 0).sum())
  if ctx is not None:
    ctx.add(evaluations=ref.size, nontrivial=n_nontrivial, traces=ref.size)
    ctx.tab("pwl_cases", "%s/%s%s" % (layout, missing, "/cyclic" if cyclic else ""), ref.size)
    ctx.tab("pwl_points", "missing_rows", int(miss_mask.sum()))
  msgs = []
  if form:
    return form
  if out.shape != ref.shape:
    return "output shape %s, expected %s" % (out.shape, ref.shape)
  if not (err.max() <= TOL):
    r, u = np.unravel_index(err.argmax(), err.shape)
    msgs.append("unit %d input %s: layer %.6g, reference %.6g (kernel column %s)" %
                (u, X[r].tolist(), out[r, u], ref[r, u], K[:, u].tolist()))
  # keypoints_inputs()/outputs() report exactly the points the function passes through
  kin = np.asarray(layer.keypoints_inputs(), dtype=np.float64)
  kout = np.asarray(layer.keypoints_outputs(), dtype=np.float64)
  want_in = np.repeat(np.array(kp)[:, None], units, axis=1)
  want_out = rp.keypoint_outputs(K, cyclic)
  if kin.shape != want_in.shape or not (np.abs(kin - want_in).max() <= TOL):
    msgs.append("keypoints_inputs() = %s, expected %s" % (kin[:, 0].tolist(), kp))
  if kout.shape != want_out.shape or not (
      (np.abs(kout - want_out) / np.maximum(1, np.abs(want_out))).max() <= TOL):
    msgs.append("keypoints_outputs() differ from cumulative kernel sums")
  else:
    # layer evaluated at its reported keypoints gives the reported outputs
    if missing == "none" or missing.startswith("tensor"):
      Xk = kin if layout == "perunit" else kin[:, :1]
      ok = _call(layer, Xk, None if missing == "none" else np.zeros(Xk.shape, np.float32))
      e2 = np.abs(ok - kout) / np.maximum(1, np.abs(kout))
      if not (e2.max() <= TOL):
        msgs.append("layer(keypoints_inputs()) != keypoints_outputs() (max err %.4g)" % e2.max())
  return "; ".join(msgs) or None


def learned_case(item, ctx=None):
  """learned_interior keypoints: ordered between fixed ends for all logit words."""
  kp, units = item["kp"], item["units"]
  tf, _ = bind.bind()
  nseg = len(kp) - 1
  letters = item.get("letters", (-3.0, 0.0, 3.0))
  words = alpha.words(letters, nseg).T  # (W, nseg)
  layer = _build_pwl(kp, units, False, "none", False, learned=True)
  if item.get("frozen"):
    layer.trainable = False
  n = len(kp)
  K = np.stack([np.arange(n, dtype=np.float64) * (u + 1) - 1 for u in range(units)], axis=1)
  layer.kernel.assign(K.astype(np.float32))
  xs = rp.input_points(kp)
  msgs = []
  cnt = 0
  for wi in range(words.shape[0]):
    L = np.stack([np.roll(words[wi], u) for u in range(units)], axis=0)
    layer.interpolation_logits.assign(L.astype(np.float32))
    out = _call(layer, xs[:, None])
    if wi in (0, words.shape[0] - 1):
      gm = graph.graph_msg(layer, xs[:, None].astype(np.float32))
      if gm:
        msgs.append("logits %s: %s" % (L.tolist(), gm))
    kin = np.asarray(layer.keypoints_inputs(), dtype=np.float64)  # (n, units)
    if not np.all(np.isfinite(out)):
      msgs.append("logits %s: non-finite output %s at inputs %s" %
                  (L.tolist(), out[~np.isfinite(out).all(axis=1)][:2].tolist(),
                   xs[~np.isfinite(out).all(axis=1)][:4].tolist()))
    for u in range(units):
      kpu = rp.learned_keypoints(kp, L[u])
      if not (np.abs(kin[:, u] - kpu).max() <= 1e-4 * max(1, abs(kp[-1] - kp[0]))):
        msgs.append("logits %s: keypoints_inputs %s, expected %s" %
                    (L[u].tolist(), kin[:, u].tolist(), kpu.tolist()))
      # "ordered": non-decreasing (a piece may underflow to zero length in float32 for |logit| >= 8)
      if not (np.all(np.diff(kin[:, u]) >= 0) and abs(kin[0, u] - kp[0]) < 1e-5 and
              abs(kin[-1, u] - kp[-1]) < 1e-4 * max(1, abs(kp[-1]))):
        msgs.append("logits %s: learned keypoints %s not ordered between the "
                    "fixed ends" % (L[u].tolist(), kin[:, u].tolist()))
      ref = rp.evaluate(kpu, K[:, u], xs)
      # evaluate only away from keypoints (kinks move with float32 rounding)
      far = np.min(np.abs(xs[:, None] - kpu[None, :]), axis=1) > 1e-3
      e = np.abs(out[:, u] - ref)[far] / np.maximum(1, np.abs(ref[far]))
      cnt += int(far.sum())
      if e.size and not (e.max() <= 5e-4):
        msgs.append("logits %s unit %d: output differs from interpolation through the "
                    "learned keypoints by %.4g" % (L[u].tolist(), u, e.max()))
    if msgs:
      break
  if ctx is not None:
    ctx.add(evaluations=cnt, nontrivial=cnt - 2, traces=cnt)
    ctx.tab("learned_keypoints", "logit_words", words.shape[0])
  return "; ".join(msgs[:3]) or None


# --------------------------------------------------------------- categorical
def cat_items(tier):
  items = []
  for nb in (2, 3, 4):
    for units in (1, 2, 3):
      for default in (None, -1, 7, 0):
        for layout in ("shared", "perunit"):
          if units == 1 and layout == "perunit":
            continue
          for dtype in ("int32", "float32", "int64"):
            for split in (False, True):
              if split and units == 1:
                continue
              items.append(dict(kind="cat", nb=nb, units=units, default=default,
                                layout=layout, dtype=dtype, split=split))
  return items


def cat_case(item, ctx=None):
  tf, tfl = bind.bind()
  nb, units, default = item["nb"], item["units"], item["default"]
  layer = tfl.layers.CategoricalCalibration(num_buckets=nb, units=units,
                                            default_input_value=default,
                                            split_outputs=item["split"])
  layer.build((None, 1 if item["layout"] == "shared" else units))
  msgs = []
  kernels = [np.arange(nb * units, dtype=np.float64).reshape(nb, units) * 1.5 - 1.0]
  if units == 1:
    kernels += [np.eye(nb)[:, i:i + 1] for i in range(nb)]
  else:
    kernels.append(np.stack([np.roll(np.eye(nb)[:, 0], u) for u in range(units)], axis=1))
  cats = list(range(nb)) + ([default] if default is not None else [])
  if item["layout"] == "shared":
    X = np.array(cats)[:, None]
  else:
    X = np.array(list(itertools.product(cats, repeat=units)))
  total = 0
  for K in kernels:
    layer.kernel.assign(K.astype(np.float32))
    x = tf.constant(X.astype(item["dtype"]))
    out = layer(x)
    form = _form_msg(out, item["split"], units, X.shape[0]) or graph.graph_msg(layer, x)
    if form:
      msgs.append(form)
      break
    if isinstance(out, (list, tuple)):
      out = tf.concat(out, axis=1)
    out = np.asarray(out, dtype=np.float64)
    ref = np.zeros((X.shape[0], units))
    for u in range(units):
      col = X[:, u] if X.shape[1] > 1 else X[:, 0]
      idx = np.where(col == default, nb - 1, col) if default is not None else col
      ref[:, u] = K[idx.astype(int), u]
    total += ref.size
    if out.shape != ref.shape:
      msgs.append("output shape %s expected %s" % (out.shape, ref.shape))
      break
    e = np.abs(out - ref)
    if not (e.max() <= 1e-5):
      r, u = np.unravel_index(e.argmax(), e.shape)
      msgs.append("category row %s unit %d -> %.6g, expected kernel row value %.6g" %
                  (X[r].tolist(), u, out[r, u], ref[r, u]))
      break
    # one example at a time: same value, batch dimension kept
    for r in sorted({0, X.shape[0] - 1}):
      o1 = layer(x[r:r + 1])
      f1 = _form_msg(o1, item["split"], units, 1)
      if isinstance(o1, (list, tuple)):
        o1 = tf.concat(o1, axis=1)
      o1 = np.asarray(o1, dtype=np.float64)
      if f1 or o1.shape != (1, units) or not np.allclose(o1[0], out[r], atol=1e-6):
        msgs.append("batch-of-one call on category row %s: %s (batched call gives %s)" %
                    (X[r].tolist(), f1 or o1.tolist(), out[r].tolist()))
        break
      total += units
    if msgs:
      break
  if ctx is not None:
    ctx.add(evaluations=total, nontrivial=total - 1, traces=total)
    ctx.tab("categorical_cases", "%s/default=%s" % (item["layout"], default), total)
  return "; ".join(msgs) or None


def replay(case):
  k = case["kind"]
  if k == "pwl":
    return pwl_case(case)
  if k == "learned":
    return learned_case(case)
  return cat_case(case)


def work(ctx, item):
  msg = replay_with_ctx(ctx, item)
  if msg:
    sig = dict(kind=item["kind"])
    for key in ("layout", "missing", "cyclic", "split", "default", "dtype"):
      if key in item:
        v = item[key]
        if key == "missing":
          v = v.split("-")[0]
        if key == "default":
          v = "none" if v is None else "set"
        sig[key] = v
    ctx.violation(sig, item, msg)
  ctx.sample(dict(item), limit=5)


def replay_with_ctx(ctx, item):
  k = item["kind"]
  if k == "pwl":
    return pwl_case(item, ctx)
  if k == "learned":
    return learned_case(item, ctx)
  return cat_case(item, ctx)


def run(ctx):
  items = pwl_items(ctx.tier) + cat_items(ctx.tier)
  if not ctx.quick:
    for kp in KEYPOINTS:
      items.append(dict(kind="learned", kp=kp, units=2, letters=(-8.0, -1.0, 0.0, 2.0, 8.0)
                        if len(kp) <= 4 else (-8.0, 0.0, 8.0)))
  items = alpha.rotate(items, ctx.seed)
  ctx.rule = (
      "PWL: keypoint vectors x cyclic x 9 missing modes (sentinel value, is_missing tensor, both; learned / fixed / zero-valued missing output) x {basis kernels with one shared input "
      "column, all words of {-1,0,1}^n (+images) with a shared column, per-unit inputs} x split; "
      "inputs = every keypoint, midpoints, quarter points, outside both ends, the missing value; "
      "learned keypoints for ALL logit words over {-3,0,3}^(n-1); categorical: buckets x units x "
      "default value x layouts x dtypes x all category tuples. Non-trivial = evaluated (input, unit) "
      "pair whose reference output is non-zero.")
  ctx.assumptions += ["float32; relative tolerance 1e-4", "learned keypoints compared away from kinks"]
  pool.pmap(ctx, "vt.checks.c05", "work", items)
