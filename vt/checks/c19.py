"""C19 - Gradients delivered to training equal the true derivatives of layer functions."""
import itertools

import numpy as np

from vt.core import alpha, bind, pool
from vt.ref import kfl as rk
from vt.ref import lattice as rl
from vt.ref import pwl as rp

ID = "C19"
LEVEL = "exploration"
LETTERS = (-2.0, 0.0, 0.5, 1.0, 3.0)
LETTERS_TINY = (0.0, 3e-7, -1e-12, 1.0, 1e3)


# ------------------------------------------------------- custom_reduce_prod
def crp_items(tier):
  out = []
  for k in (1, 2, 3, 4) if tier == "quick" else (1, 2, 3, 4, 5):
    for layout in ("Nk", "kN", "NkM", "MNk1"):
      out.append(dict(kind="crp", k=k, layout=layout))
      # the same with factors of tiny / large magnitude next to exact zeros: a factor of 3e-7 is
      # not a zero (the custom gradient has separate branches for 0, 1 and >= 2 exact zeros)
      out.append(dict(kind="crp", k=k, layout=layout, letters="tiny"))
  return out


def crp_case(item, ctx=None, only=None):
  tf, tfl = bind.bind()
  from tensorflow_lattice.python import kronecker_factored_lattice_lib as kl
  k = item["k"]
  letters = LETTERS_TINY if item.get("letters") == "tiny" else LETTERS
  W = alpha.words(letters, k).T  # (N, k): every zero pattern along the reduced axis
  if only is not None:
    W = np.asarray(only, dtype=np.float64)
  N = W.shape[0]
  if item["layout"] == "Nk":
    t, axis = W, 1
  elif item["layout"] == "kN":
    t, axis = W.T, 0
  elif item["layout"] == "NkM":
    t, axis = np.stack([W, W[::-1]], axis=2), 1          # (N, k, 2)
  else:
    t, axis = np.stack([W, 2.0 * W], axis=0)[..., None], 2  # (2, N, k, 1)
  x = tf.constant(t.astype(np.float32))
  rng = np.arange(1, 1 + int(np.prod([s for i, s in enumerate(t.shape) if i != axis])))
  dy_shape = [s for i, s in enumerate(t.shape) if i != axis]
  dy = tf.constant((0.5 + (rng % 7)).astype(np.float32).reshape(dy_shape))
  with tf.GradientTape(persistent=True) as tape:
    tape.watch(x)
    a = kl.custom_reduce_prod(x, axis=axis)
    b = tf.reduce_prod(x, axis=axis)
    la = tf.reduce_sum(a * dy)
    lb = tf.reduce_sum(b * dy)
  ga = np.asarray(tape.gradient(la, x), dtype=np.float64)
  gb = np.asarray(tape.gradient(lb, x), dtype=np.float64)
  # closed form: product of the others
  t64 = t.astype(np.float64)
  closed = np.zeros_like(t64)
  for i in range(t.shape[axis]):
    others = np.delete(t64, i, axis=axis)
    sl = [slice(None)] * t.ndim
    sl[axis] = i
    closed[tuple(sl)] = np.prod(others, axis=axis) * np.asarray(dy, dtype=np.float64)
  msgs = []
  fw = np.abs(np.asarray(a) - np.asarray(b)).max()
  if not fw <= 1e-5 * max(1.0, np.abs(np.asarray(b)).max()):
    msgs.append("forward value differs from tf.reduce_prod by %.4g" % fw)
  tol = 1e-4 * np.maximum(1.0, np.abs(closed))
  for name, g in (("autodiff of tf.reduce_prod", gb), ("closed form", closed)):
    bad = ~(np.abs(ga - g) <= tol)  # NaN counts as a mismatch
    if bad.any():
      pos = np.unravel_index(int(np.argmax(bad)), ga.shape)
      sl = list(pos)
      sl[axis] = slice(None)
      msgs.append("gradient %.6g vs %s %.6g at %s for reduced vector %s" %
                  (ga[pos], name, g[pos], pos, t64[tuple(sl)].tolist()))
      break
  if ctx is not None:
    zeros = (W == 0).sum(axis=1)
    ctx.add(evaluations=t.size, nontrivial=int((zeros >= 1).sum()), traces=t.size)
    for z in range(k + 1):
      ctx.tab("crp_zero_patterns", "k%d_zeros%d" % (k, z), int((zeros == z).sum()))
  return "; ".join(msgs) or None


# ------------------------------------------------------------ KFL end-to-end
def kfl_items(tier):
  out = []
  for L, dims, terms in ((2, 1, 1), (2, 2, 1), (3, 2, 1), (2, 2, 2), (2, 3, 1), (3, 1, 2)):
    for units in (1, 2):
      out.append(dict(kind="kfl", L=L, dims=dims, terms=terms, units=units))
  return out


def kfl_case(item, ctx=None, only=None):
  """Kernel words are packed as units (units never interact: C09); units==1 items
  run a subset of the words one at a time through the units==1 code path."""
  tf, tfl = bind.bind()
  L, dims, terms, units = item["L"], item["dims"], item["terms"], item["units"]
  e = L * dims * terms
  letters = (-1.0, 0.0, 0.5, 2.0) if e <= 6 else (-1.0, 0.0, 2.0) if e <= 8 else (0.0, 2.0)
  W = alpha.words(letters, e).T
  if only is not None:
    W = np.asarray(only, dtype=np.float64)
  pts = [0.0, 0.25, 0.5, 1.0] + ([1.25, 2.0] if L == 3 else [])
  X = np.array(list(itertools.product(pts, repeat=dims)), dtype=np.float32)
  interior = np.all((X % 1.0) != 0, axis=1)
  msgs = []
  total = 0
  scales = [np.array([1.5, -2.0][:terms]), np.array([0.0, 1.0][:terms])]
  if units == 1:
    groups = [W[i:i + 1] for i in range(0, W.shape[0], max(1, W.shape[0] // 24))]
  else:
    groups = [W[i:i + 2048] for i in range(0, W.shape[0], 2048)]
  for G in groups:
    U = G.shape[0]
    layer = tfl.layers.KroneckerFactoredLattice(lattice_sizes=L, units=U, num_terms=terms,
                                                clip_inputs=True)
    layer.build(tf.TensorShape((None, dims) if U == 1 else (None, U, dims)))
    Kunits = G.reshape(U, L, dims, terms)
    k4 = np.transpose(Kunits, (1, 0, 2, 3)).reshape(1, L, U * dims, terms)
    for s in scales:
      layer.kernel.assign(k4.astype(np.float32))
      layer.scale.assign(np.repeat(s[None, :], U, axis=0).astype(np.float32))
      layer.bias.assign(np.full(U, 0.25, dtype=np.float32))
      xin = tf.constant(X if U == 1 else np.repeat(X[:, None, :], U, axis=1))
      upstream = tf.constant((1.0 + np.arange(X.shape[0]) % 3).astype(np.float32)[:, None])
      with tf.GradientTape(persistent=True) as tape:
        tape.watch(xin)
        out = layer(xin)
        loss = tf.reduce_sum(out * upstream)
        kk = tf.reshape(layer.kernel, [L, U, dims, terms])
        xr = tf.reshape(tf.clip_by_value(xin, 0.0, L - 1.0), [-1, U, dims])
        verts = tf.constant(np.arange(L, dtype=np.float32))
        hat = 1.0 - tf.minimum(tf.abs(xr[..., None] - verts), 1.0)      # (B, U, dims, L)
        dot = tf.einsum("budl,ludt->budt", hat, kk)
        ref = tf.reduce_mean(layer.scale[None] * tf.reduce_prod(dot, axis=2), axis=-1) + layer.bias
        ref = tf.reshape(ref, out.shape)
        rloss = tf.reduce_sum(ref * upstream)
      total += X.shape[0] * U
      for name, var in (("kernel", layer.kernel), ("scale", layer.scale), ("inputs", xin)):
        g1 = tape.gradient(loss, var)
        g2 = tape.gradient(rloss, var)
        g1 = np.zeros(var.shape) if g1 is None else np.asarray(g1, dtype=np.float64)
        g2 = np.zeros(var.shape) if g2 is None else np.asarray(g2, dtype=np.float64)
        if name == "inputs":
          g1, g2 = g1[interior], g2[interior]
          g1 = g1.reshape(g1.shape[0], U, dims).transpose(1, 0, 2).reshape(U, -1)
          g2 = g2.reshape(g2.shape[0], U, dims).transpose(1, 0, 2).reshape(U, -1)
        elif name == "kernel":
          g1 = g1.reshape(L, U, dims, terms).transpose(1, 0, 2, 3).reshape(U, -1)
          g2 = g2.reshape(L, U, dims, terms).transpose(1, 0, 2, 3).reshape(U, -1)
        d = np.abs(g1 - g2).max(axis=1)
        lim = 1e-3 * np.maximum(1.0, np.abs(g2).max(axis=1))
        bad = np.where(~(d <= lim))[0]
        if len(bad):
          c = int(bad[0])
          msgs.append("d loss/d %s differs from the plain-product expression by %.4g "
                      "(kernel word %s, scale %s)" % (name, d[c], G[c].tolist(), s.tolist()))
      fw = np.abs(np.asarray(out) - np.asarray(ref)).max()
      if not fw <= 1e-4 * max(1.0, np.abs(np.asarray(ref)).max()):
        msgs.append("forward output differs from reference expression by %.4g" % fw)
      if msgs:
        break
    if msgs:
      break
  if ctx is not None:
    ctx.add(evaluations=total, nontrivial=int((W == 0).any(axis=1).sum()), traces=total)
    ctx.tab("kfl_gradient_configs", "L%d_d%d_t%d_u%d" % (L, dims, terms, units), W.shape[0])
  return "; ".join(msgs[:2]) or None


# ------------------------------------------- Lattice / PWL / Categorical
def jac_items(tier):
  out = []
  for sizes in ([2], [3], [2, 2], [2, 3], [3, 3], [2, 2, 2]):
    for interp in ("hypercube", "simplex"):
      for units in (1, 2):
        out.append(dict(kind="jac-lattice", sizes=sizes, interpolation=interp, units=units))
      if len(sizes) >= 2:
        out.append(dict(kind="jac-lattice", sizes=sizes, interpolation=interp, units=1, form="list"))
  for kp in ([0.0, 1.0], [0.0, 1.0, 3.0], [0.0, 0.1, 1.0, 4.0], [-2.0, -1.0, 0.5, 3.0], [1.0, 2.0, 4.0, 5.0]):
    for units in (1, 2):
      for cyclic in (False, True):
        if cyclic and len(kp) < 3:
          continue
        out.append(dict(kind="jac-pwl", kp=kp, units=units, cyclic=cyclic))
      if len(kp) >= 3:
        # learned interior keypoints: the weights follow the keypoints the layer reports
        out.append(dict(kind="jac-pwl", kp=kp, units=units, cyclic=False, learned=True))
  for nb in (2, 4):
    for units in (1, 2):
      out.append(dict(kind="jac-cat", nb=nb, units=units))
  return out


def _jac(layer, xin, var):
  tf, _ = bind.bind()
  with tf.GradientTape() as tape:
    out = layer(xin)
  J = np.asarray(tape.jacobian(out, var), dtype=np.float64)
  if not np.all(np.isfinite(J)):
    J = np.where(np.isfinite(J), J, 1e9)  # non-finite entries must mismatch every reference
  return J, np.asarray(out, dtype=np.float64)


def jac_case(item, ctx=None):
  tf, tfl = bind.bind()
  msgs = []
  units = item["units"]
  if item["kind"] == "jac-lattice":
    sizes = item["sizes"]
    n = rl.nvert(sizes)
    layer = tfl.layers.Lattice(lattice_sizes=sizes, units=units, interpolation=item["interpolation"])
    layer.build((None, len(sizes)) if units == 1 else (None, units, len(sizes)))
    X = rl.input_grid(sizes, fine=True, outside=True)
    Wref = (rl.hypercube_weights if item["interpolation"] == "hypercube" else rl.simplex_weights)(X, sizes)
    xin = tf.constant((X if units == 1 else np.repeat(X[:, None, :], units, axis=1)).astype(np.float32))
    if item.get("form") == "list":
      xin = [tf.constant(X[:, k:k + 1].astype(np.float32)) for k in range(X.shape[1])]
    jacs = []
    for kernel in (np.zeros((n, units)), np.arange(n * units, dtype=np.float64).reshape(n, units) - 3.0):
      layer.kernel.assign(kernel.astype(np.float32))
      J, _ = _jac(layer, xin, layer.kernel)  # (B, units, n, units)
      jacs.append(J)
      for u in range(units):
        Ju = J[:, u, :, u]
        if np.abs(Ju - Wref).max() > 1e-4:
          r = int(np.abs(Ju - Wref).max(axis=1).argmax())
          msgs.append("d out/d kernel at %s = %s, interpolation weights are %s" %
                      (X[r].tolist(), np.round(Ju[r], 5).tolist(), np.round(Wref[r], 5).tolist()))
        if Ju.min() < -1e-5 or np.abs(Ju.sum(axis=1) - 1).max() > 1e-4:
          msgs.append("kernel Jacobian rows are not non-negative weights summing to one")
        for v in range(units):
          if v != u and np.abs(J[:, u, :, v]).max() > 1e-6:
            msgs.append("output of unit %d depends on kernel column %d" % (u, v))
      if msgs:
        break
    if not msgs and np.abs(jacs[0] - jacs[1]).max() > 1e-5:
      msgs.append("kernel Jacobian depends on the kernel value")
    cnt = X.shape[0] * n * units
  elif item["kind"] == "jac-pwl":
    kp, cyclic = item["kp"], item["cyclic"]
    learned = bool(item.get("learned"))
    layer = tfl.layers.PWLCalibration(input_keypoints=np.array(kp, dtype=np.float32), units=units,
                                      is_cyclic=cyclic,
                                      input_keypoints_type="learned_interior" if learned else "fixed")
    layer.build((None, 1))
    rows = len(kp) - (1 if cyclic else 0)
    if learned:
      logits = np.array([0.6, -0.4, 0.2, -0.9][:len(kp) - 1])
      layer.interpolation_logits.assign(np.tile(logits[None, :], (units, 1)).astype(np.float32))
      kp = rp.learned_keypoints(kp, logits).tolist()
      rep_kp = np.asarray(layer.keypoints_inputs(), dtype=np.float64)
      if np.abs(rep_kp - np.array(kp)[:, None]).max() > 1e-4 * max(1.0, abs(kp[-1] - kp[0])):
        msgs.append("keypoints_inputs() %s differ from the softmax-derived keypoints %s" % (rep_kp[:, 0].tolist(), kp))
    xs = rp.input_points(kp)
    if learned:  # stay clear of the kinks, whose position carries float32 rounding
      xs = xs[np.min(np.abs(xs[:, None] - np.array(kp)[None, :]), axis=1) > 1e-3]
    xin = tf.constant(xs[:, None].astype(np.float32))
    Wref = np.stack([rp.evaluate(kp, np.eye(rows)[:, j], xs, cyclic) for j in range(rows)], axis=1)
    jacs = []
    for kernel in (np.zeros((rows, units)), np.arange(rows * units, dtype=np.float64).reshape(rows, units) + 1.0):
      layer.kernel.assign(kernel.astype(np.float32))
      J, _ = _jac(layer, xin, layer.kernel)  # (B, units, rows, units)
      jacs.append(J)
      for u in range(units):
        if np.abs(J[:, u, :, u] - Wref).max() > 1e-4:
          msgs.append("PWL d out/d kernel differs from the interpolation weights (max %.4g)" %
                      np.abs(J[:, u, :, u] - Wref).max())
    if not msgs and np.abs(jacs[0] - jacs[1]).max() > 1e-5:
      msgs.append("PWL kernel Jacobian depends on the kernel value")
    cnt = len(xs) * rows * units
  else:
    nb = item["nb"]
    layer = tfl.layers.CategoricalCalibration(num_buckets=nb, units=units, default_input_value=-1)
    layer.build((None, 1))
    cats = np.array(list(range(nb)) + [-1])
    xin = tf.constant(cats[:, None].astype(np.int32))
    Wref = np.eye(nb)[np.where(cats == -1, nb - 1, cats)]
    jacs = []
    for kernel in (np.zeros((nb, units)), np.arange(nb * units, dtype=np.float64).reshape(nb, units)):
      layer.kernel.assign(kernel.astype(np.float32))
      J, _ = _jac(layer, xin, layer.kernel)
      jacs.append(J)
      for u in range(units):
        if np.abs(J[:, u, :, u] - Wref).max() > 1e-6:
          msgs.append("categorical d out/d kernel is not the one-hot row selector")
    if not msgs and np.abs(jacs[0] - jacs[1]).max() > 1e-6:
      msgs.append("categorical kernel Jacobian depends on the kernel value")
    cnt = len(cats) * nb * units
  if ctx is not None:
    ctx.add(evaluations=cnt, nontrivial=cnt // 2, traces=cnt)
    ctx.tab("jacobian_configs", item["kind"])
  return "; ".join(msgs[:2]) or None


def replay(case):
  k = case["kind"]
  if k == "crp":
    return crp_case(case, only=case.get("only"))
  if k == "kfl":
    return kfl_case(case, only=case.get("only"))
  return jac_case(case)


def work(ctx, item):
  k = item["kind"]
  msg = crp_case(item, ctx) if k == "crp" else kfl_case(item, ctx) if k == "kfl" else jac_case(item, ctx)
  ctx.sample(item, limit=5)
  if msg:
    sig = dict(kind=k)
    for key in ("layout", "interpolation"):
      if key in item:
        sig[key] = item[key]
    if k == "crp":
      sig["k_ge2"] = int(item["k"] >= 2)
    ctx.violation(sig, item, msg)


def run(ctx):
  items = alpha.rotate(crp_items(ctx.tier) + kfl_items(ctx.tier) + jac_items(ctx.tier), ctx.seed)
  ctx.rule = (
      "custom_reduce_prod: ALL vectors over {-2,0,.5,1,3}^k (k<=4, every pattern of exact zeros) "
      "along the reduced axis, in 4 tensor layouts / reduction axes, non-constant upstream gradient, "
      "against autodiff of tf.reduce_prod and the closed form; KFL end-to-end: all kernel words "
      "(with zeros) x scales incl. 0, gradients w.r.t. kernel, scale and inputs vs the same "
      "expression written with tf.reduce_prod; Lattice/PWL/Categorical: Jacobian of outputs w.r.t. "
      "kernel on the full input grid equals the reference interpolation weights for two kernels. "
      "Non-trivial = vector/kernel containing at least one exact zero.")
  ctx.assumptions += ["float32; relative tolerance 1e-4 (1e-3 end-to-end)",
                      "input gradients compared only where the function is differentiable"]
  pool.pmap(ctx, "vt.checks.c19", "work", items, chunk=1)
