"""C14 - Alternative representations of the same function agree."""
import itertools

import numpy as np

from vt.core import alpha, bind, pool
from vt.ref import kfl as rk
from vt.ref import lattice as rl

ID = "C14"
LEVEL = "exploration"
TOL = 2e-4


def _close(a, b, tol=TOL):
  a, b = np.asarray(a, dtype=np.float64), np.asarray(b, dtype=np.float64)
  if a.shape != b.shape:
    return False, "shapes %s vs %s" % (a.shape, b.shape), None
  d = np.abs(a - b) / np.maximum(1.0, np.abs(b))
  if not (d.max() <= tol):
    pos = np.unravel_index(int(np.nanargmax(np.where(np.isnan(d), np.inf, d))), d.shape)
    return False, "max relative difference %.4g at %s (%.6g vs %.6g)" % (
        d.max(), pos, a[pos], b[pos]), pos
  return True, "", None


# ------------------------------------------------------------- KFL vs Lattice
def kfl_items(tier):
  out = []
  for L in (2, 3):
    for dims in (1, 2, 3):
      for terms in (1, 2, 3):
        if L ** dims > 27:
          continue
        if tier == "quick" and L * dims * terms > 12:
          continue
        for clip in (True, False):
          out.append(dict(kind="kfl", L=L, dims=dims, terms=terms, clip=clip))
  return out


def kfl_case(item, ctx=None, only=None):
  tf, tfl = bind.bind()
  L, dims, terms, clip = item["L"], item["dims"], item["terms"], item["clip"]
  e = L * dims * terms
  letters = (-1.0, 0.0, 0.5, 2.0) if e <= 6 else (-1.0, 0.5, 2.0) if e <= 9 else (-1.0, 2.0)
  W = alpha.words(letters, e).T
  if W.shape[0] > 20000:
    W = W[:: (W.shape[0] // 20000 + 1)]
    if ctx is not None:
      ctx.cap("KFL-vs-Lattice %s: kernel words subsampled by stride to %d" % (item, W.shape[0]))
  if only is not None:
    W = np.asarray(only["kernel"], dtype=np.float64)[None]
  msgs = []
  # without clipping both representations extrapolate multilinearly for lattice_sizes == 2;
  # for larger sizes the out-of-range behaviour is only defined with clipping
  X, _ = rk.grid(L, dims, outside=(clip or L == 2))
  Sw = alpha.words((-2.0, 0.5, 0.0), terms).T if only is None else np.asarray(only["scale"])[None]
  total = 0
  for s in Sw:
    U = W.shape[0]
    kfl = tfl.layers.KroneckerFactoredLattice(lattice_sizes=L, units=U, num_terms=terms,
                                              clip_inputs=clip)
    kfl.build(tf.TensorShape((None, dims) if U == 1 else (None, U, dims)))
    Kun = W.reshape(U, L, dims, terms)
    kfl.kernel.assign(np.transpose(Kun, (1, 0, 2, 3)).reshape(1, L, U * dims, terms).astype(np.float32))
    kfl.scale.assign(np.repeat(s[None], U, axis=0).astype(np.float32))
    bias = 0.25 + 0.5 * (np.arange(U) % 3)
    kfl.bias.assign(bias.astype(np.float32))
    lat = tfl.layers.Lattice(lattice_sizes=[L] * dims, units=U, clip_inputs=clip)
    lat.build((None, dims) if U == 1 else (None, U, dims))
    dense = np.stack([rk.dense_kernel(Kun[u], s, bias[u]) for u in range(U)], axis=1)
    lat.kernel.assign(dense.astype(np.float32))
    xin = tf.constant((X if U == 1 else np.repeat(X[:, None, :], U, axis=1)).astype(np.float32))
    a = np.asarray(kfl(xin)); b = np.asarray(lat(xin))
    total += a.size
    ok, msg, pos = _close(a, b)
    if not ok:
      u = pos[-1] if pos is not None and len(pos) > 1 else 0
      msgs.append("KFL vs Lattice(dense kernel): %s; kernel word %s scale %s" %
                  (msg, W[u].tolist(), s.tolist()))
      item = dict(item, only=dict(kernel=W[u].tolist(), scale=s.tolist()))
      break
  if ctx is not None:
    ctx.add(evaluations=total, nontrivial=total // 2, traces=total)
    ctx.tab("pairs", "kfl_vs_lattice", total)
  return ("; ".join(msgs) or None), item


# ----------------------------------------- pwl_calibration_fn vs PWLCalibration
def pwlfn_items(tier):
  out = []
  for nk in (2, 3, 4):
    for mode in ("none", "none-cyclic", "inc", "inc-cmin", "inc-cmax", "inc-both"):
      for missing in ("no", "derived", "fixed"):
        for units in (1, 2):
          out.append(dict(kind="pwlfn", nk=nk, mode=mode, missing=missing, units=units))
  return out


def pwlfn_case(item, ctx=None):
  tf, tfl = bind.bind()
  from tensorflow_lattice.python import conditional_pwl_calibration as cpc
  nk, mode, missing, units = item["nk"], item["mode"], item["missing"], item["units"]
  mono = "increasing" if mode.startswith("inc") else "none"
  cmin = mode in ("inc-cmin", "inc-both")
  cmax = mode in ("inc-cmax", "inc-both")
  cyc = mode == "none-cyclic"
  P_out = nk - cmin - cmax - cyc + (1 if missing == "derived" else 0)
  P_in = nk - 2
  if P_out <= 0:
    return None, item
  imin, imax, omin, omax = -1.0, 3.0, -2.0, 5.0
  letters = (-2.0, 0.0, 2.0)
  out_words = alpha.words(letters, P_out).T
  in_words = alpha.words(letters, P_in).T if P_in > 0 else np.zeros((1, 0))
  xs = np.array([imin - 1, imin, imin + 0.3, 0.0, 0.7, 1.0, 2.2, imax, imax + 2, 1.5], dtype=np.float32)
  miss_in = 1.5 if missing != "no" else None
  miss_out = -0.5 if missing == "fixed" else None
  msgs = []
  total = 0
  for iw in in_words:
    for ow in out_words:
      kin = None if P_in == 0 else tf.constant(
          np.stack([iw, iw[::-1]][:units])[None].astype(np.float32))
      kout = tf.constant(np.stack([ow, -ow][:units])[None].astype(np.float32))
      res = cpc.pwl_calibration_fn(
          inputs=tf.constant(xs[:, None]), keypoint_input_parameters=kin,
          keypoint_output_parameters=kout, keypoint_input_min=imin, keypoint_input_max=imax,
          keypoint_output_min=omin, keypoint_output_max=omax, units=units, monotonicity=mono,
          clamp_min=cmin, clamp_max=cmax, is_cyclic=cyc, missing_input_value=miss_in,
          missing_output_value=miss_out, return_derived_parameters=True)
      outs, deltas, kern = [np.asarray(r, dtype=np.float64) for r in res]
      total += outs.size
      for u in range(units):
        kp = imin + np.concatenate([[0.0], np.cumsum(deltas[0, u])])
        kw = {}
        if missing != "no":
          mo = miss_out
          if missing == "derived":
            raw = np.stack([ow, -ow][:units])[u][-1]
            mo = omin + (omax - omin) / (1.0 + np.exp(-raw))
          kw = dict(impute_missing=True, missing_input_value=miss_in, missing_output_value=float(mo))
        layer = tfl.layers.PWLCalibration(input_keypoints=kp.astype(np.float32), units=1, **kw)
        layer.build((None, 1))
        layer.kernel.assign(kern[0, u][:, None].astype(np.float32))
        lo = np.asarray(layer(tf.constant(xs[:, None])), dtype=np.float64)[:, 0]
        # skip inputs within 1e-4 of a keypoint kink difference? both are continuous: compare all
        ok, msg, _ = _close(outs[:, u], lo, 5e-4)
        if not ok:
          msgs.append("pwl_calibration_fn vs PWLCalibration(derived keypoints/kernel): %s; in %s out %s unit %d"
                      % (msg, iw.tolist(), ow.tolist(), u))
          break
        if cyc and nk >= 3:
          cl = tfl.layers.PWLCalibration(input_keypoints=kp.astype(np.float32), units=1,
                                         is_cyclic=True, **kw)
          cl.build((None, 1))
          cl.kernel.assign(kern[0, u][:-1, None].astype(np.float32))
          lo2 = np.asarray(cl(tf.constant(xs[:, None])), dtype=np.float64)[:, 0]
          ok, msg, _ = _close(outs[:, u], lo2, 5e-4)
          if not ok:
            msgs.append("cyclic fn vs cyclic layer: " + msg)
            break
      if msgs:
        break
    if msgs:
      break
  if ctx is not None:
    ctx.add(evaluations=total, nontrivial=total - len(xs), traces=total)
    ctx.tab("pairs", "pwlfn_vs_layer", total)
  return ("; ".join(msgs) or None), item


# --------------------------------------------------------------- cdf_fn vs CDF
def cdf_items(tier):
  out = []
  for act in ("relu6", "sigmoid"):
    for red in ("mean", "none"):
      for sp, d, units in ((1, 1, 1), (1, 2, 2), (2, 2, 2), (2, 4, 2), (1, 3, 3), (2, 2, 4), (2, 4, 4)):
        for scaling in ("fixed", "learned_shared", "learned_per_input"):
          for nk in (1, 2, 3):
            out.append(dict(kind="cdf", activation=act, reduction=red, sparsity=sp, dim=d,
                            units=units, scaling=scaling, nk=nk))
  return out


def cdf_case(item, ctx=None):
  tf, tfl = bind.bind()
  from tensorflow_lattice.python import conditional_cdf
  d, units, sp, nk = item["dim"], item["units"], item["sparsity"], item["nk"]
  layer = tfl.layers.CDF(num_keypoints=nk, units=units, activation=item["activation"],
                         reduction=item["reduction"], input_scaling_type=item["scaling"],
                         input_scaling_init=2.0, sparsity_factor=sp)
  # CDF.build() does not mark the layer as built, so Keras builds it (again) on the first
  # call: build through a call, then assign.
  layer(tf.zeros((1, d)))
  ush = units // sp
  n_entries = d * nk * ush
  letters = (0.0, 0.5, 1.0)
  if n_entries <= 6:
    words = alpha.words(letters, n_entries).T
  else:
    base = alpha.words(letters, 6).T
    words = np.concatenate([base, base[:, ::-1]] * ((n_entries + 11) // 12), axis=1)[:, :n_entries]
  xs = np.array(list(itertools.product([-0.5, 0.0, 0.3, 0.8, 1.0, 4.0], repeat=min(d, 2))), dtype=np.float32)
  if d > 2:
    xs = np.concatenate([xs] + [xs[:, :1][::-1]] * (d - 2), axis=1)
  if d == 1:
    xs = xs[:, :1]
  msgs = []
  total = 0
  scal_vals = (0.0, 0.5, 3.0)
  for sv in scal_vals:
    if item["scaling"] == "fixed":
      if sv != scal_vals[0]:
        continue
      scaling = None
      sc_fn = tf.constant(np.full((1, 1, 1, 1), 2.0, dtype=np.float32))
    elif item["scaling"] == "learned_shared":
      layer.input_scaling.assign([sv])
      sc_fn = tf.constant(np.full((1, 1, 1, 1), sv, dtype=np.float32))
    else:
      per = sv + np.arange(d, dtype=np.float32) * 0.5
      layer.input_scaling.assign(per.reshape(1, d, 1, 1))
      sc_fn = tf.constant(per.reshape(1, d, 1, 1))
    for w in words:
      K = w.reshape(1, d, nk, ush)
      layer.kernel.assign(K.astype(np.float32))
      a = np.asarray(layer(tf.constant(xs)))
      b = np.asarray(conditional_cdf.cdf_fn(
          inputs=tf.constant(xs), location_parameters=tf.constant(K.astype(np.float32)),
          scaling_parameters=sc_fn, units=units, activation=item["activation"],
          reduction=item["reduction"], sparsity_factor=sp))
      total += a.size
      ok, msg, _ = _close(a, b)
      if not ok:
        msgs.append("CDF layer vs cdf_fn: %s; kernel %s scaling %s" % (msg, w.tolist(), sv))
        break
    if msgs:
      break
  if ctx is not None:
    ctx.add(evaluations=total, nontrivial=total // 2, traces=total)
    ctx.tab("pairs", "cdf_vs_cdf_fn", total)
  return ("; ".join(msgs) or None), item


# ---------------------------------- ParallelCombination / Aggregation / RTL
def misc_items(tier):
  out = []
  for single in (True, False):
    for form in ("tensor", "list"):
      out.append(dict(kind="parallel", single_output=single, form=form))
  for lens in itertools.product((1, 2, 3), repeat=3):
    out.append(dict(kind="aggregation", lens=list(lens)))
  for par in ("all_vertices", "kronecker_factored"):
    for sep in (False, True):
      for avg in (False, True):
        for seed in (0, 1, 2):
          for shape in ("dict-mixed", "tensor"):
            out.append(dict(kind="rtl", parameterization=par, separate=sep, average=avg,
                            seed=seed, shape=shape))
  return out


def parallel_case(item, ctx=None):
  tf, tfl = bind.bind()
  cal0 = tfl.layers.PWLCalibration(input_keypoints=np.array([0.0, 1.0, 3.0], dtype=np.float32))
  cal1 = tfl.layers.CategoricalCalibration(num_buckets=3, default_input_value=-1)
  cal2 = tfl.layers.PWLCalibration(input_keypoints=np.array([-1.0, 2.0], dtype=np.float32),
                                   monotonicity="decreasing")
  comb = tfl.layers.ParallelCombination([cal0, cal1, cal2], single_output=item["single_output"])
  X = np.array(list(itertools.product([-1.0, 0.0, 0.5, 2.0, 4.0], [0.0, 1.0, 2.0, -1.0],
                                      [-2.0, 0.0, 1.0, 3.0])), dtype=np.float32)
  if item["form"] == "tensor":
    out = comb(tf.constant(X))
  else:
    out = comb([tf.constant(X[:, k:k + 1]) for k in range(3)])
  cal0.kernel.assign([[0.5], [1.0], [-2.0]])
  cal1.kernel.assign([[3.0], [-1.0], [0.25]])
  cal2.kernel.assign([[2.0], [-1.5]])
  if item["form"] == "tensor":
    out = comb(tf.constant(X))
  else:
    out = comb([tf.constant(X[:, k:k + 1]) for k in range(3)])
  if isinstance(out, (list, tuple)):
    if item["single_output"]:
      return "single_output=True returned a list", item
    out = np.concatenate([np.asarray(o) for o in out], axis=1)
  elif not item["single_output"]:
    return "single_output=False returned a single tensor", item
  ref = np.concatenate([np.asarray(c(tf.constant(X[:, k:k + 1]))) for k, c in enumerate((cal0, cal1, cal2))], axis=1)
  ok, msg, _ = _close(np.asarray(out), ref, 1e-6)
  if ctx is not None:
    ctx.add(evaluations=ref.size, nontrivial=ref.size - 3, traces=ref.size)
    ctx.tab("pairs", "parallel_combination", ref.size)
  return (None if ok else "ParallelCombination vs column-wise calibrators: " + msg), item


def aggregation_case(item, ctx=None):
  tf, tfl = bind.bind()
  import tf_keras as keras
  lens = item["lens"]
  inp = [keras.layers.Input(shape=(1,)), keras.layers.Input(shape=(1,))]
  lat = tfl.layers.Lattice(lattice_sizes=[2, 3], kernel_initializer="zeros")
  outp = lat(inp)
  model = keras.Model(inputs=inp, outputs=outp)
  lat.kernel.assign(np.array([[0.0], [1.0], [-2.0], [3.0], [0.5], [7.0]], dtype=np.float32))
  agg = tfl.layers.Aggregation(model)
  vals0 = [[0.1 * (i + 1) + 0.2 * j for j in range(n)] for i, n in enumerate(lens)]
  vals1 = [[1.9 - 0.4 * j - 0.1 * i for j in range(n)] for i, n in enumerate(lens)]
  r0 = tf.ragged.constant(vals0, dtype=tf.float32)
  r1 = tf.ragged.constant(vals1, dtype=tf.float32)
  out = np.asarray(agg([r0, r1]), dtype=np.float64).reshape(-1)
  ref = []
  for a, b in zip(vals0, vals1):
    x = [tf.constant(np.array(a, dtype=np.float32)[:, None]), tf.constant(np.array(b, dtype=np.float32)[:, None])]
    ref.append(float(np.mean(np.asarray(model(x)))))
  ok, msg, _ = _close(out, np.array(ref), 1e-5)
  if ctx is not None:
    ctx.add(evaluations=len(ref), nontrivial=len(ref), traces=len(ref))
    ctx.tab("pairs", "aggregation", len(ref))
  return (None if ok else "Aggregation vs per-example mean over ragged rows %s: %s" % (lens, msg)), item


def rtl_case(item, ctx=None):
  tf, tfl = bind.bind()
  tf.random.set_seed(7)
  np.random.seed(7)
  par = item["parameterization"]
  kw = {}
  if par == "kronecker_factored":
    kw = dict(kernel_initializer="kfl_random_monotonic_initializer", num_terms=2)
  else:
    kw = dict(kernel_initializer="random_monotonic_initializer")
  layer = tfl.layers.RTL(num_lattices=4, lattice_rank=2, lattice_size=3, parameterization=par,
                         separate_outputs=item["separate"], average_outputs=item["average"],
                         random_seed=item["seed"], **kw)
  B = 9
  rng = np.arange(B * 5, dtype=np.float32).reshape(B, 5)
  X = (rng * 0.37) % 2.0
  if item["shape"] == "dict-mixed":
    x = {"unconstrained": tf.constant(X[:, :2]),
         "increasing": [tf.constant(X[:, 2:4]), tf.constant(X[:, 4:5])]}
    flat = np.concatenate([X[:, 2:4], X[:, 4:5], X[:, :2]], axis=1)  # sorted keys: increasing first
  else:
    x = tf.constant(X)
    flat = X
  out = layer(x)
  # explicit gather into the layer's own sub-lattices
  outs = [[], []]
  for monos, idx in layer._rtl_structure:
    sub = layer._lattice_layers[str(monos)]
    g = flat[:, np.array(idx)]  # (B, units, rank)
    if len(idx) == 1:
      g = g[:, 0, :]
    o = np.asarray(sub(tf.constant(g.astype(np.float32))))
    outs[max(monos)].append(o)
  if item["separate"]:
    ref = {}
    if outs[0]:
      ref["unconstrained"] = np.concatenate(outs[0], axis=1)
    if outs[1]:
      ref["increasing"] = np.concatenate(outs[1], axis=1)
    if set(ref) != set(out.keys()):
      return "separate outputs keys %s, expected %s" % (sorted(out.keys()), sorted(ref)), item
    for k in ref:
      ok, msg, _ = _close(np.asarray(out[k]), ref[k], 1e-5)
      if not ok:
        return "RTL[%s] vs explicit gather: %s" % (k, msg), item
    n = sum(v.size for v in ref.values())
  else:
    ref = np.concatenate(outs[0] + outs[1], axis=1)
    if item["average"]:
      ref = ref.mean(axis=-1, keepdims=True)
    ok, msg, _ = _close(np.asarray(out), ref, 1e-5)
    if not ok:
      return "RTL vs explicit gather of _rtl_structure: %s" % msg, item
    n = ref.size
  if ctx is not None:
    ctx.add(evaluations=n, nontrivial=n, traces=n)
    ctx.tab("pairs", "rtl", n)
  return None, item


def replay(case):
  return _dispatch(case, None)[0]


def _dispatch(item, ctx):
  k = item["kind"]
  if k == "kfl":
    return kfl_case(item, ctx, only=item.get("only"))
  if k == "pwlfn":
    return pwlfn_case(item, ctx)
  if k == "cdf":
    return cdf_case(item, ctx)
  if k == "parallel":
    return parallel_case(item, ctx)
  if k == "aggregation":
    return aggregation_case(item, ctx)
  return rtl_case(item, ctx)


def work(ctx, item):
  msg, case = _dispatch(item, ctx)
  ctx.sample(item, limit=6)
  if msg:
    sig = dict(pair=item["kind"])
    for key in ("mode", "missing", "activation", "reduction", "scaling", "parameterization", "clip"):
      if key in item:
        sig[key] = item[key]
    ctx.violation(sig, case, msg)


def run(ctx):
  items = kfl_items(ctx.tier) + pwlfn_items(ctx.tier) + cdf_items(ctx.tier) + misc_items(ctx.tier)
  items = alpha.rotate(items, ctx.seed)
  ctx.rule = (
      "six representation pairs; KFL vs Lattice: all kernel words (alphabets of C07) x scale words "
      "x full grid, sizes {2,3}, dims 1-3, terms 1-3; pwl_calibration_fn vs PWLCalibration holding "
      "the derived keypoints/kernel: all parameter words over {-2,0,2}^P for every mode/missing/"
      "units; cdf_fn vs CDF: activations x {mean,none} x sparsity x scaling types x kernel words "
      "over {0,.5,1}; ParallelCombination, Aggregation over all ragged length triples in {1,2,3}^3, "
      "RTL vs explicit gather for both parameterizations/seeds/input forms. Non-trivial = compared "
      "output value with non-degenerate parameters (counted per pair).")
  ctx.assumptions += ["float32; relative tolerance 2e-4 (5e-4 for pwl fn)",
                      "geometric-mean reduction excluded as the property states"]
  pool.pmap(ctx, "vt.checks.c14", "work", items, chunk=2)
