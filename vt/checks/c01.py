"""C01 - Lattice weight constraint output meets every strict shape constraint.

E1 (product-space enumerator, unit-axis packing) + a short E2 chain
(perturb/project), driving the real LatticeConstraints / Lattice.finalize_constraints.
"""
import itertools

import numpy as np

from vt.core import alpha, bind, pool
from vt.ref import lattice as rl

ID = "C01"
LEVEL = "model_checking"
REL = 2e-5
GUARD = 5.0


# ------------------------------------------------------------ configurations
def _trust_triples(d, mono):
  out = []
  for m in range(d):
    if not mono[m]:
      continue
    for c in range(d):
      if c != m:
        for s in (1, -1):
          out.append((m, c, s))
  return out


def _valid_trusts(trusts):
  """trusts: list of (kind, (m,c,s)). Validity as documented."""
  mains = set(t[0] for _, t in trusts)
  conds = set(t[1] for _, t in trusts)
  if mains & conds:
    return False
  dirs = {}
  for _, (m, c, s) in trusts:
    if dirs.setdefault((m, c), s) != s:
      return False
  # the same trust twice in the same family is pointless
  if len(set(trusts)) != len(trusts):
    return False
  return True


def _companions(sizes, mono, tier):
  """One approximately-enforced family at a time (plus none)."""
  d = len(sizes)
  out = [None]
  free3 = [k for k in range(d) if not mono[k] and sizes[k] >= 3]
  monos = [k for k in range(d) if mono[k]]
  if free3:
    out.append(("unimodalities", tuple(1 if k == free3[0] else 0 for k in range(d))))
    out.append(("unimodalities", tuple(-1 if k == free3[-1] else 0 for k in range(d))))
    out.append(("joint_unimodalities", (((free3[0],), "valley"),)))
    if len(free3) >= 2:
      out.append(("joint_unimodalities", ((tuple(free3[:2]), "peak"),)))
  if len(monos) >= 2:
    out.append(("monotonic_dominances", ((monos[0], monos[1]),)))
    out.append(("range_dominances", ((monos[1], monos[0]),)))
  if d >= 2:
    out.append(("joint_monotonicities", ((0, d - 1),)))
  return out


def configs(tier, seed=0):
  quick = tier == "quick"
  if quick:
    shapes = [[2], [3], [2, 2], [2, 3], [3, 2], [3, 3], [2, 2, 2]]
    iters_set = [0, 1, 3]
    max_trusts = 2
  else:
    shapes = [[2], [3], [4], [2, 2], [2, 3], [3, 2], [3, 3], [2, 4], [2, 2, 2],
              [2, 3, 2], [2, 2, 3], [3, 2, 2]]
    iters_set = [0, 1, 2, 10, 50]
    max_trusts = 3
  bounds_set = [(None, None), (-0.5, None), (None, 0.5), (-1.0, 1.0), (-0.5, 0.75), (0.0, None),
                (-1.0, 0.0)]  # incl. bounds that are exactly 0.0 (a falsy value is still a bound)
  out = []
  for sizes in shapes:
    d = len(sizes)
    n = rl.nvert(sizes)
    for mono in itertools.product([0, 1], repeat=d):
      triples = _trust_triples(d, mono)
      singles = [(k, t) for k in ("E", "T") for t in triples]
      trust_sets = [()]
      for r in range(1, max_trusts + 1):
        if r == 3 and (d < 3 or n > 8):
          continue
        for combo in itertools.combinations(singles, r):
          if _valid_trusts(list(combo)):
            trust_sets.append(combo)
      for ts in trust_sets:
        comps = _companions(sizes, mono, tier)
        # pairs of trusts and big lattices: only a reduced companion set in quick
        if quick and (len(ts) >= 2 or n >= 8):
          comps = comps[:1] + comps[-1:] if len(comps) > 1 else comps
        for comp in comps:
          if comp is None and not any(mono) and not ts:
            pass  # bounds-only configuration: still explored
          for bi, (lo, hi) in enumerate(bounds_set):
            its = iters_set
            if quick and (n >= 8 or len(ts) >= 2):
              its = [0, 1] if (bi % 2 == 0) else [3]
              if bi >= 5:
                its = [1]
            if not quick and n == 8:
              its = [0, 1, 10] if (bi % 2 == 0) else [2, 50]
            if not quick and n >= 12:
              # 3^12 kernels per configuration: strict families only, two bound modes
              if comp is not None or bi not in (0, 3, 5) or len(ts) > 2:
                continue
              its = [0, 2]
            for it in its:
              cfg = dict(sizes=list(sizes), mono=list(mono),
                         E=[list(t) for k, t in ts if k == "E"],
                         T=[list(t) for k, t in ts if k == "T"],
                         comp=comp, lo=lo, hi=hi, iters=it)
              out.append(cfg)
  return alpha.rotate(out, seed)


# ------------------------------------------------------------------- binding
def kwargs_of(cfg):
  kw = dict(lattice_sizes=list(cfg["sizes"]), monotonicities=list(cfg["mono"]),
            output_min=cfg["lo"], output_max=cfg["hi"])
  if cfg["E"]:
    kw["edgeworth_trusts"] = [tuple(t) for t in cfg["E"]]
  if cfg["T"]:
    kw["trapezoid_trusts"] = [tuple(t) for t in cfg["T"]]
  if cfg.get("comp"):
    name, val = cfg["comp"]
    if name == "unimodalities":
      kw[name] = list(val)
    elif name == "joint_unimodalities":
      kw[name] = [(tuple(v[0]), v[1]) for v in val]
    else:
      kw[name] = [tuple(v) for v in val]
  return kw


def apply_constraint(cfg, K, mode="constraint"):
  """Runs the real code on kernel matrix K (n, units); returns float64 array."""
  tf, tfl = bind.bind()
  from tensorflow_lattice.python import lattice_layer
  kw = kwargs_of(cfg)
  K32 = np.asarray(K, dtype=np.float32)
  if mode == "constraint":
    c = lattice_layer.LatticeConstraints(
        num_projection_iterations=cfg["iters"], enforce_strict_monotonicity=True,
        **kw)
    return np.asarray(c(tf.constant(K32)), dtype=np.float64)
  elif mode in ("finalize", "finalize_strict"):
    # a kernel put in place without the optimizer (assign / restored weights), then
    # layer.finalize_constraints(); in the default strict mode and in the non-strict mode
    units = K32.shape[1]
    layer = lattice_layer.Lattice(units=units, monotonic_at_every_step=(mode == "finalize_strict"),
                                  num_projection_iterations=cfg["iters"], **kw)
    d = len(cfg["sizes"])
    shape = (None, d) if units == 1 else (None, units, d)
    layer.build(shape)
    layer.kernel.assign(K32)
    layer.finalize_constraints()
    return np.asarray(layer.kernel.numpy(), dtype=np.float64)
  elif mode == "lib_finalize":
    from tensorflow_lattice.python import lattice_lib
    out = lattice_lib.finalize_constraints(
        tf.constant(K32), lattice_sizes=list(cfg["sizes"]),
        monotonicities=list(cfg["mono"]),
        edgeworth_trusts=[tuple(t) for t in cfg["E"]] or None,
        trapezoid_trusts=[tuple(t) for t in cfg["T"]] or None,
        output_min=cfg["lo"], output_max=cfg["hi"])
    return np.asarray(out, dtype=np.float64)
  raise ValueError(mode)


# -------------------------------------------------------------------- oracle
_FAM_CACHE = {}


def families(cfg):
  key = repr((cfg["sizes"], cfg["mono"], cfg["E"], cfg["T"], cfg.get("comp")))
  if key in _FAM_CACHE:
    return _FAM_CACHE[key]
  sizes = cfg["sizes"]
  strict = rl.constraint_matrix(
      sizes, monotonicities=cfg["mono"],
      edgeworth_trusts=[tuple(t) for t in cfg["E"]],
      trapezoid_trusts=[tuple(t) for t in cfg["T"]])
  comp = {}
  if cfg.get("comp"):
    name, val = cfg["comp"]
    if name == "joint_unimodalities":
      val = [(tuple(v[0]), v[1]) for v in val]
    comp = rl.constraint_matrix(sizes, **{name: val})
  _FAM_CACHE[key] = (strict, comp)
  return strict, comp


def trapezoid_exempt(cfg):
  """Documented exception: >=2 trapezoid trusts sharing a conditional feature
  while an Edgeworth trust is present."""
  if not cfg["E"]:
    return False
  conds = [t[1] for t in cfg["T"]]
  return len(conds) != len(set(conds))


def cfg_sig(cfg):
  mono = cfg["mono"]
  tc = [t[1] for t in cfg["T"]]
  return dict(
      rank_ge3=int(len(cfg["sizes"]) >= 3), edgeworth=int(bool(cfg["E"])),
      trapezoid=int(bool(cfg["T"])),
      trap_cond_mono=int(any(mono[c] for c in tc)))


def cfg_info(cfg):
  return dict(
      rank=len(cfg["sizes"]),
      bounds=("none" if cfg["lo"] is None and cfg["hi"] is None else
              "min" if cfg["hi"] is None else "max" if cfg["lo"] is None else "both"),
      companion=(cfg["comp"][0] if cfg.get("comp") else "none"))


def judge(cfg, Kin, Kout, check_strict=True, check_bounds=True):
  """Returns list of (column, sig_extra dict, message). Columns judged apart."""
  strict, comp = families(cfg)
  Kin = np.asarray(Kin, dtype=np.float64)
  Kout = np.asarray(Kout, dtype=np.float64)
  B = Kin.shape[1]
  S = np.maximum(1.0, np.abs(Kin).max(axis=0))
  for b in (cfg["lo"], cfg["hi"]):
    if b is not None:
      S = np.maximum(S, abs(b))
  tol = REL * S * GUARD
  out = []
  if Kout.shape != Kin.shape or not np.all(np.isfinite(Kout)):
    bad = np.where(~np.all(np.isfinite(Kout), axis=0))[0] if Kout.shape == Kin.shape else [0]
    for c in bad[:1]:
      out.append((int(c), dict(violated="nonfinite-or-shape"),
                  "output has non-finite entries or wrong shape %s" % (Kout.shape,)))
    return out, np.zeros(B, bool)
  exempt = trapezoid_exempt(cfg)
  tcond = set(t[1] for t in cfg["T"])
  if check_strict:
    for fam, (A, labels) in strict.items():
      if fam[0] == "trapezoid" and exempt:
        continue
      slack = A @ Kout  # (m, B)
      worst = slack.min(axis=0)
      rowi = slack.argmin(axis=0)
      bad = np.where(worst < -tol)[0]
      if len(bad):
        c = int(bad[0])
        extra = dict(violated=fam[0])
        if fam[0] == "mono":
          extra["viol_dim_is_trap_cond"] = int(fam[1] in tcond)
        out.append((c, extra, "%s inequality %s violated: slack %.6g < -%.3g" %
                    (fam, labels[rowi[c]], worst[c], tol[c])))
    if cfg["lo"] is not None and check_bounds:
      worst = Kout.min(axis=0) - cfg["lo"]
      bad = np.where(worst < -tol)[0]
      if len(bad):
        c = int(bad[0])
        out.append((c, dict(violated="bounds"),
                    "min weight %.6g below output_min %s" % (Kout[:, c].min(), cfg["lo"])))
    if cfg["hi"] is not None and check_bounds:
      worst = cfg["hi"] - Kout.max(axis=0)
      bad = np.where(worst < -tol)[0]
      if len(bad):
        c = int(bad[0])
        out.append((c, dict(violated="bounds"),
                    "max weight %.6g above output_max %s" % (Kout[:, c].max(), cfg["hi"])))
  # feasible -> unchanged
  feas = np.ones(B, dtype=bool)
  for fams in (strict, comp):
    for fam, (A, _) in fams.items():
      feas &= (A @ Kin).min(axis=0) >= 0.0
  if cfg["lo"] is not None:
    feas &= Kin.min(axis=0) >= cfg["lo"]
  if cfg["hi"] is not None:
    feas &= Kin.max(axis=0) <= cfg["hi"]
  moved = np.abs(Kout - Kin).max(axis=0)
  bad = np.where(feas & (moved > tol))[0]
  if len(bad):
    c = int(bad[0])
    out.append((c, dict(violated="unchanged"),
                "feasible kernel moved by %.6g (> %.3g)" % (moved[c], tol[c])))
  return out, feas


def replay(case):
  """Re-executes one case alone; returns message if the property is violated."""
  cfg = case["cfg"]
  K = np.asarray(case["kernel"], dtype=np.float64)
  if K.ndim == 1:
    K = K[:, None]
  mode = case.get("mode", "constraint")
  Kout = apply_constraint(cfg, K, mode)
  res, _ = judge(cfg, K, Kout, check_bounds=(mode != "lib_finalize"))
  want = case.get("violated")
  msgs = [m for _, ex, m in res if want is None or ex["violated"] == want]
  if not msgs and res:
    msgs = [m for _, _, m in res]
  return "; ".join(msgs) if msgs else None


def _report(ctx, cfg, mode, Kin, res, packed_out=None):
  for col, extra, msg in res:
    k = Kin[:, col]
    case = dict(cfg=cfg, kernel=k.tolist(), mode=mode, violated=extra["violated"])
    alone = None
    try:
      alone = replay(case)
    except Exception as e:  # pylint: disable=broad-except
      alone = "exception when re-executed alone: %r" % (e,)
    sig = dict(cfg_sig(cfg))
    sig.update(extra)
    sig["mode"] = mode
    if alone:
      ctx.violation(sig, case, alone)
    else:
      # Only visible inside a multi-unit kernel: still a legal counterexample.
      sig["packed_only"] = 1
      lo, hi = max(0, col - 2), min(Kin.shape[1], col + 3)
      case = dict(cfg=cfg, kernel=Kin[:, lo:hi].tolist(), mode=mode,
                  violated=extra["violated"])
      ctx.violation(sig, case, "only in a multi-unit kernel: " + msg)


def explore_config(ctx, cfg):
  """E1 for one configuration: all words of A3^n and their images, packed."""
  sizes = cfg["sizes"]
  n = rl.nvert(sizes)
  base = alpha.words(alpha.A3, n)
  imgs = alpha.IMAGES if n <= 9 else alpha.IMAGES[:2] + alpha.IMAGES[3:4]
  Kin = alpha.images(base, imgs)
  Kin = Kin.astype(np.float32).astype(np.float64)
  mode = cfg.get("mode", "constraint")
  Kout = apply_constraint(cfg, Kin, mode)
  # lattice_lib.finalize_constraints alone does not promise the bounds (the
  # constraint object clips afterwards); only shape constraints are judged there.
  res, feas = judge(cfg, Kin, Kout, check_bounds=(mode != "lib_finalize"))
  changed = np.abs(Kout - Kin).max(axis=0) > 0
  ctx.add(evaluations=Kin.shape[1], nontrivial=int(changed.sum()),
          states=Kin.shape[1], transitions=Kin.shape[1], traces=Kin.shape[1])
  s = cfg_info(cfg)
  ctx.tab("cases_by_rank", s["rank"], Kin.shape[1])
  ctx.tab("configs_by_trusts", "E%d_T%d" % (len(cfg["E"]), len(cfg["T"])))
  ctx.tab("configs_by_companion", s["companion"])
  ctx.tab("configs_by_bounds", s["bounds"])
  ctx.tab("configs_by_iters", cfg["iters"])
  ctx.tab("configs_by_mode", mode)
  ctx.tab("outcome", "feasible_input_columns", int(feas.sum()))
  ctx.tab("outcome", "projection_changed_columns", int(changed.sum()))
  if changed.any():
    c = int(np.argmax(changed))
    ctx.sample(dict(cfg=cfg, mode=mode, kernel_in=Kin[:, c].tolist(),
                    kernel_out=np.round(Kout[:, c], 6).tolist()), limit=4)
  _report(ctx, cfg, mode, Kin, res)


def explore_unpacked(ctx, cfg):
  """Masking control: the complete A3^n sub-space with ONE kernel per call."""
  n = rl.nvert(cfg["sizes"])
  base = alpha.words(alpha.A3, n)
  for c in range(base.shape[1]):
    K = base[:, c:c + 1]
    Kout = apply_constraint(cfg, K, "constraint")
    res, _ = judge(cfg, K, Kout)
    ctx.add(evaluations=1, nontrivial=int(np.abs(Kout - K).max() > 0), states=1,
            transitions=1, traces=1)
    for _, extra, msg in res:
      sig = dict(cfg_sig(cfg))
      sig.update(extra)
      sig["mode"] = "constraint"
      ctx.violation(sig, dict(cfg=cfg, kernel=K[:, 0].tolist(), mode="constraint",
                              violated=extra["violated"]), msg)
  ctx.tab("configs_by_mode", "unpacked-units1")


def explore_chain(ctx, cfg):
  """E2: BFS over perturb->project chains from projected kernels (depth 2).

  State = canonical projected kernel; action = (vertex, delta) perturbation
  followed by the real constraint. Invariant = strict constraints in every
  reached state; strict-only configurations must be fixpoints (C(C(w))=C(w))."""
  sizes = cfg["sizes"]
  n = rl.nvert(sizes)
  deltas = (1.0, -1.0, 1000.0, -1000.0)
  start = alpha.words(alpha.A3, n)
  frontier = apply_constraint(cfg, start, "constraint")
  res, _ = judge(cfg, start, frontier)
  _report(ctx, cfg, "constraint", start, res)
  seen = {}
  def canon(col):
    return tuple(np.round(col, 4).tolist())
  cols = []
  for c in range(frontier.shape[1]):
    k = canon(frontier[:, c])
    if k not in seen:
      seen[k] = len(seen)
      cols.append(frontier[:, c])
  depth = 2
  transitions = 0
  cur = np.array(cols).T
  for lvl in range(depth):
    if cur.shape[1] == 0:
      break
    # fixpoint on strict-only configurations
    if not cfg.get("comp"):
      again = apply_constraint(cfg, cur, "constraint")
      S = np.maximum(1.0, np.abs(cur).max(axis=0))
      bad = np.where(np.abs(again - cur).max(axis=0) > REL * GUARD * S)[0]
      transitions += cur.shape[1]
      if len(bad):
        c = int(bad[0])
        sig = dict(cfg_sig(cfg)); sig.update(violated="fixpoint", mode="chain")
        ctx.violation(sig, dict(cfg=cfg, kernel=cur[:, c].tolist(), mode="constraint",
                                violated="unchanged"),
                      "projected kernel moves again by %.6g when re-projected" %
                      np.abs(again[:, c] - cur[:, c]).max())
    blocks = []
    for v in range(n):
      for dlt in deltas:
        P = cur.copy()
        P[v, :] += dlt
        blocks.append(P)
    Pin = np.concatenate(blocks, axis=1)
    Pin = Pin.astype(np.float32).astype(np.float64)
    Pout = apply_constraint(cfg, Pin, "constraint")
    transitions += Pin.shape[1]
    res, _ = judge(cfg, Pin, Pout)
    _report(ctx, cfg, "constraint", Pin, res)
    nxt = []
    for c in range(Pout.shape[1]):
      k = canon(Pout[:, c])
      if k not in seen:
        seen[k] = len(seen)
        nxt.append(Pout[:, c])
    cur = np.array(nxt).T if nxt else np.zeros((n, 0))
    if cur.shape[1] > 60000:
      # keep the BFS level bounded: explore the first 60000 new states (reported)
      ctx.cap("chain level %d of %s truncated to 60000 of %d new states" %
              (lvl + 1, cfg["sizes"], cur.shape[1]))
      cur = cur[:, :60000]
  ctx.add(evaluations=transitions, nontrivial=len(seen), states=len(seen),
          transitions=transitions, traces=transitions)
  ctx.tab("chain", "states", len(seen))
  ctx.tab("chain", "transitions", transitions)
  ctx.tab("configs_by_mode", "chain")


def work(ctx, item):
  kind, cfg = item
  if kind == "e1":
    explore_config(ctx, cfg)
  elif kind == "unpacked":
    explore_unpacked(ctx, cfg)
  elif kind == "chain":
    explore_chain(ctx, cfg)


def run(ctx):
  cfgs = configs(ctx.tier, ctx.seed)
  items = [("e1", c) for c in cfgs]
  # finalize_constraints() through the real layer (mode B) and the lib function
  seen = set()
  for c in cfgs:
    key = repr((c["sizes"], c["mono"], c["E"], c["T"], c["comp"], c["lo"], c["hi"]))
    if key in seen:
      continue
    seen.add(key)
    if ctx.quick and rl.nvert(c["sizes"]) > 6:
      continue
    c2 = dict(c); c2["mode"] = "finalize"; c2["iters"] = 2
    items.append(("e1", c2))
    c4 = dict(c); c4["mode"] = "finalize_strict"; c4["iters"] = 2
    items.append(("e1", c4))
    if not c["comp"]:
      c3 = dict(c); c3["mode"] = "lib_finalize"; c3["iters"] = 0
      items.append(("e1", c3))
  # masking control: unpacked
  for c in cfgs:
    if c["sizes"] == [2, 2] and c["iters"] == 1 and not c["comp"] and (
        len(c["E"]) + len(c["T"]) <= 1) and (c["lo"], c["hi"]) in (
            (None, None), (-0.5, 0.75)):
      items.append(("unpacked", c))
  # chains
  for c in cfgs:
    if c["iters"] == 1 and rl.nvert(c["sizes"]) <= (4 if ctx.quick else 6) and (
        (c["lo"], c["hi"]) in ((None, None), (-1.0, 1.0))) and c["comp"] is None:
      items.append(("chain", c))
  ctx.rule = (
      "E1: for every enumerated configuration (shapes x monotonicity vectors x "
      "valid trust sets x companion family x bounds x iterations x mode) ALL words "
      "of {-1,0,1}^n and their images (x1e3, x1e-3, +5, -5) are pushed through the "
      "real constraint (packed in the unit axis; candidates re-run alone; a complete "
      "sub-space also run one-kernel-per-call). E2: BFS over perturb->project "
      "chains, depth 2. Non-trivial = distinct kernel the projection actually "
      "changed (E1) / distinct reached state (E2).")
  ctx.assumptions += [
      "float32 eager CPU; tolerance 1e-4*max(1,|w|,|bounds|)",
      "values outside the alphabet images, rank>3 and >3 trusts not covered",
      "documented exception (>=2 trapezoid trusts sharing a conditional feature "
      "with Edgeworth present) exempts only the trapezoid predicate"]
  ctx.tab("configs", "total_items", len(items))
  pool.pmap(ctx, "vt.checks.c01", "work", items)
