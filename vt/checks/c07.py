"""C07 - KroneckerFactoredLattice after its constraints gives monotone, bounded outputs.

E1: all kernel words x all scale words per configuration, packed in the unit
axis, through the real constraints and the real layer evaluation.
E2: BFS over orders of raw perturbations / kernel constraint / scale constraint /
finalize_constraints on a real layer; invariant on settled states.
"""
import itertools

import numpy as np

from vt.core import alpha, bind, explorer, pool
from vt.ref import kfl as rk

ID = "C07"
LEVEL = "model_checking"
KALPHA = (-1.0, 0.0, 0.5, 2.0)
SALPHA = (-2.0, -0.5, 0.0, 0.5, 2.0)
BOUNDS = {"none": (None, None), "min": (-0.5, None), "max": (None, 1.0), "both": (-0.5, 1.0),
          "min0": (0.0, None), "max0": (None, 0.0), "both0": (0.0, 1.0),
          # both bounds on the same side of zero (midpoint != half range)
          "bothpos": (1.0, 3.0), "bothneg": (-3.0, -1.0)}
UNIT_BLOCK = 8192


def configs(tier, seed=0):
  quick = tier == "quick"
  out = []
  for L in (2, 3):
    for dims in (1, 2, 3):
      for terms in (1, 2):
        e = L * dims * terms
        if quick and e > 12:
          continue
        for mono in itertools.product([0, 1], repeat=dims):
          for bname in BOUNDS:
            for clip in (True, False):
              if quick and not clip and e > 6:
                continue
              if (bname.endswith("0") or bname in ("bothpos", "bothneg")) and (not clip or (quick and e > 6)):
                continue
              out.append(dict(L=L, dims=dims, terms=terms, mono=list(mono), bounds=bname, clip=clip))
  return alpha.rotate(out, seed)


def kernel_words(L, dims, terms, tier):
  e = L * dims * terms
  if e <= 6:
    letters = KALPHA
  elif e <= 8:
    letters = KALPHA if tier != "quick" else (-1.0, 0.5, 2.0)
  elif e <= 9:
    letters = (-1.0, 0.5, 2.0)
  elif e <= 12:
    letters = (-1.0, 2.0) if tier == "quick" else (-1.0, 0.5, 2.0)
  else:
    letters = (-1.0, 2.0)
  W = alpha.words(letters, e)  # (e, N)
  return W, letters


def make_layer(cfg, units):
  tf, tfl = bind.bind()
  lo, hi = BOUNDS[cfg["bounds"]]
  tf.random.set_seed(1234)  # the random initial kernel is part of the 'constructed' state
  layer = tfl.layers.KroneckerFactoredLattice(
      lattice_sizes=cfg["L"], units=units, num_terms=cfg["terms"],
      monotonicities=list(cfg["mono"]) if any(cfg["mono"]) or cfg.get("pass_mono", True) else None,
      output_min=lo, output_max=hi, clip_inputs=cfg["clip"])
  dims = cfg["dims"]
  layer.build(tf.TensorShape((None, dims) if units == 1 else (None, units, dims)))
  return layer


def set_weights(layer, cfg, Kunits, Sunits):
  """Kunits: (B, L, dims, terms); Sunits: (B, terms)."""
  B = Kunits.shape[0]
  L, dims, terms = cfg["L"], cfg["dims"], cfg["terms"]
  k = np.transpose(Kunits, (1, 0, 2, 3)).reshape(1, L, B * dims, terms)
  layer.kernel.assign(k.astype(np.float32))
  layer.scale.assign(Sunits.astype(np.float32))


def get_weights(layer, cfg):
  L, dims, terms = cfg["L"], cfg["dims"], cfg["terms"]
  k = layer.kernel.numpy().astype(np.float64)
  B = k.shape[2] // dims
  K = np.transpose(k.reshape(L, B, dims, terms), (1, 0, 2, 3))
  return K, layer.scale.numpy().astype(np.float64)


def apply_constraints(layer, order="ks"):
  for which in order:
    if which == "k":
      if layer.kernel.constraint is not None:
        layer.kernel.assign(layer.kernel.constraint(layer.kernel))
    elif which == "s":
      if layer.scale.constraint is not None:
        layer.scale.assign(layer.scale.constraint(layer.scale))
    elif which == "f":
      layer.finalize_constraints()


def evaluate(layer, cfg, units, X, form="tensor"):
  tf, _ = bind.bind()
  Xu = X.astype(np.float32) if units == 1 else np.repeat(X[:, None, :], units, axis=1).astype(np.float32)
  if form == "list":   # documented alternative input form: one tensor per input dimension
    parts = [tf.constant(Xu[..., k:k + 1]) for k in range(Xu.shape[-1])]
    return np.asarray(layer(parts), dtype=np.float64)
  return np.asarray(layer(tf.constant(Xu)), dtype=np.float64)


def judge_outputs(cfg, out, X, pts, extra_tol=0.0):
  """out: (G, B) real outputs on the product grid. Returns list (col, kind, msg)."""
  res = []
  dims, L = cfg["dims"], cfg["L"]
  lo, hi = BOUNDS[cfg["bounds"]]
  g = len(pts)
  B = out.shape[1]
  if not np.all(np.isfinite(out)):
    c = int(np.where(~np.all(np.isfinite(out), axis=0))[0][0])
    return [(c, "nonfinite", "non-finite layer output, or list-form inputs give a different output than tensor-form")]
  mag = np.maximum(1.0, np.abs(out).max(axis=0))
  tol = 5e-4 * mag + extra_tol  # float32 tf.pow in the bound projection is only ~1e-4 accurate
  inrange = np.all((X >= 0) & (X <= L - 1), axis=1)
  rows = np.ones(X.shape[0], bool) if cfg["clip"] else inrange
  O = out.reshape([g] * dims + [B])
  R = rows.reshape([g] * dims)
  for d in range(dims):
    if not cfg["mono"][d]:
      continue
    diff = np.diff(O, axis=d)
    ok_rows = np.logical_and(np.take(R, range(1, g), axis=d), np.take(R, range(0, g - 1), axis=d))
    diff = np.where(ok_rows[..., None], diff, 0.0)
    worst = diff.reshape(-1, B).min(axis=0)
    bad = np.where(worst < -tol)[0]
    if len(bad):
      c = int(bad[0])
      res.append((c, "monotonicity", "output decreases by %.6g along increasing input %d" % (-worst[c], d)))
      break
  sub = out[rows]
  if lo is not None:
    bad = np.where(sub.min(axis=0) < lo - tol)[0]
    if len(bad):
      c = int(bad[0])
      res.append((c, "bounds", "output %.6g < output_min %s" % (sub[:, c].min(), lo)))
  if hi is not None:
    bad = np.where(sub.max(axis=0) > hi + tol)[0]
    if len(bad):
      c = int(bad[0])
      res.append((c, "bounds", "output %.6g > output_max %s" % (sub[:, c].max(), hi)))
  return res


def run_block(cfg, Kunits, Sunits, order, list_form=False):
  """Real constraints then real evaluation for a block of units."""
  B = Kunits.shape[0]
  layer = make_layer(cfg, B)
  set_weights(layer, cfg, Kunits, Sunits)
  apply_constraints(layer, order)
  X, pts = rk.grid(cfg["L"], cfg["dims"], outside=True)
  out = evaluate(layer, cfg, B, X)
  if B == 1:
    out = out.reshape(-1, 1)
  if list_form:
    out_l = evaluate(layer, cfg, B, X, form="list").reshape(out.shape)
    bad = ~(np.abs(out_l - out) <= 1e-5 * np.maximum(1.0, np.abs(out)))
    if bad.any():
      r, c = np.unravel_index(int(np.argmax(bad)), bad.shape)
      # make the discrepancy visible to the caller as a non-finite output of that unit
      out = out.copy()
      out[r, c] = np.nan
  K2, S2 = get_weights(layer, cfg)
  asserted = None
  try:
    layer.assert_constraints(eps=1e-3)
  except Exception as e:  # pylint: disable=broad-except
    asserted = "%s: %s" % (type(e).__name__, str(e)[:200])
  return out, X, pts, K2, S2, asserted


def replay(case):
  if case.get("kind") == "e2":
    return e2_replay(case)
  cfg = case["cfg"]
  K = np.asarray(case["kernel"], dtype=np.float64)[None]
  S = np.asarray(case["scale"], dtype=np.float64)[None]
  out, X, pts, K2, S2, asserted = run_block(cfg, K, S, case.get("order", "ks"), list_form=True)
  res = judge_outputs(cfg, out, X, pts)
  msgs = [m for _, _, m in res]
  if asserted and case.get("violated") == "assert":
    msgs.append("own assert_constraints fails after constraints: " + asserted)
  return "; ".join(msgs) or None


def explore_config(ctx, cfg):
  L, dims, terms = cfg["L"], cfg["dims"], cfg["terms"]
  W, letters = kernel_words(L, dims, terms, ctx.tier)
  Swords = alpha.words(SALPHA, terms).T  # (5^terms, terms)
  N = W.shape[1]
  Kall = W.T.reshape(N, L, dims, terms)
  total = 0
  nontriv = 0
  for s in Swords:
    for order in (("ks", "sk") if (ctx.quick is False or (N <= 4096)) else ("ks",)):
      for start in range(0, N, UNIT_BLOCK):
        Kb = Kall[start:start + UNIT_BLOCK]
        Sb = np.repeat(s[None, :], Kb.shape[0], axis=0)
        out, X, pts, K2, S2, asserted = run_block(cfg, Kb, Sb, order, list_form=(start == 0 and order == "ks"))
        res = judge_outputs(cfg, out, X, pts)
        total += Kb.shape[0]
        nontriv += int((np.abs(K2 - Kb).reshape(Kb.shape[0], -1).max(axis=1) > 0).sum())
        if asserted:
          res.append((0, "assert", "assert_constraints() fails on constrained weights: " + asserted))
        for col, kind, msg in res:
          case = dict(cfg=cfg, kernel=Kb[col].tolist(), scale=Sb[col].tolist(), order=order,
                      violated=kind)
          sig = dict(violated=kind, any_mono=int(any(cfg["mono"])), bounds=cfg["bounds"],
                     clip=int(cfg["clip"]))
          alone = None
          try:
            alone = replay(case)
          except Exception as e:  # pylint: disable=broad-except
            alone = "exception when re-executed alone: %r" % (e,)
          if alone:
            ctx.violation(sig, case, alone)
          elif kind != "assert":
            sig["packed_only"] = 1
            ctx.violation(sig, case, "only in a multi-unit layer: " + msg)
          else:
            # assertion over the whole block: find the offending unit by bisection-free scan
            for c2 in range(min(Kb.shape[0], 64)):
              cc = dict(case, kernel=Kb[c2].tolist(), scale=Sb[c2].tolist())
              if replay(cc):
                ctx.violation(sig, cc, msg)
                break
            else:
              sig["packed_only"] = 1
              ctx.violation(sig, dict(case, kernel=Kb[:4].tolist()), msg)
  ctx.add(evaluations=total, nontrivial=nontriv, states=total, transitions=total, traces=total)
  ctx.tab("e1_configs", "L%d_d%d_t%d_letters%d" % (L, dims, terms, len(letters)))
  ctx.tab("e1_by_bounds", cfg["bounds"])
  ctx.tab("e1_by_mono", "any" if any(cfg["mono"]) else "none")
  ctx.sample(dict(cfg=cfg, kernel_word=Kall[min(N - 1, 5)].tolist(), scale=Swords[0].tolist()), limit=3)


# ------------------------------------------------------------------------ E2
def e2_configs(tier):
  out = []
  for L, dims, terms in ((2, 2, 1), (2, 1, 2)) + (((3, 1, 1), (2, 2, 2)) if tier != "quick" else ()):
    for mono in ([1] * dims, [0] * dims) + (([1] + [0] * (dims - 1),) if dims > 1 else ()):
      for bname in ("none", "both", "min", "max"):
        out.append(dict(kind="e2", L=L, dims=dims, terms=terms, mono=list(mono), bounds=bname,
                        clip=True))
  return out


def _e2_actions(cfg):
  e = cfg["L"] * cfg["dims"] * cfg["terms"]
  acts = []
  for i in range(min(e, 4)):
    acts.append(("k+", i))
  acts += [("kneg",), ("k100",), ("k-set", 0)]
  for t in range(cfg["terms"]):
    acts.append(("sflip", t))
    acts.append(("szero", t))
  acts += [("s100",), ("CK",), ("CS",), ("FIN",)]
  return acts


class _E2(object):
  """Live real layer + state restore by assignment."""

  def __init__(self, cfg):
    self.cfg = cfg
    self.layer = make_layer(cfg, 1)
    self.X, self.pts = rk.grid(cfg["L"], cfg["dims"], outside=True)

  def restore(self, st):
    k, s = st[0], st[1]
    L, dims, terms = self.cfg["L"], self.cfg["dims"], self.cfg["terms"]
    self.layer.kernel.assign(np.array(k, dtype=np.float32).reshape(1, L, dims, terms))
    self.layer.scale.assign(np.array(s, dtype=np.float32).reshape(1, terms))

  def read(self, dk, ds, mag=1.0):
    # mag: magnitude (power of ten) of the weights finalize_constraints() started from; its
    # assign_add(constraint(w) - w) loses ~1e-7*|w| absolutely (float32 cancellation).
    return (tuple(np.round(self.layer.kernel.numpy().reshape(-1).astype(np.float64), 5).tolist()),
            tuple(np.round(self.layer.scale.numpy().reshape(-1).astype(np.float64), 5).tolist()),
            dk, ds, mag)

  def step(self, st, act):
    self.restore(st)
    dk, ds, mag = st[2], st[3], 1.0
    lay = self.layer
    a = act[0]
    if a == "k+":
      k = lay.kernel.numpy(); k.reshape(-1)[act[1]] += 1.0; lay.kernel.assign(k); dk, ds = True, True
    elif a == "kneg":
      lay.kernel.assign(-lay.kernel.numpy()); dk, ds = True, True
    elif a == "k100":
      lay.kernel.assign(100.0 * lay.kernel.numpy()); dk, ds = True, True
    elif a == "k-set":
      k = lay.kernel.numpy(); k.reshape(-1)[act[1]] = -3.0; lay.kernel.assign(k); dk, ds = True, True
    elif a == "sflip":
      s = lay.scale.numpy(); s[0, act[1]] *= -1.0; lay.scale.assign(s); dk, ds = True, True
    elif a == "szero":
      s = lay.scale.numpy(); s[0, act[1]] = 0.0; lay.scale.assign(s); dk, ds = True, True
    elif a == "s100":
      lay.scale.assign(100.0 * lay.scale.numpy()); dk, ds = True, True
    elif a == "CK":
      apply_constraints(lay, "k"); dk = False
    elif a == "CS":
      apply_constraints(lay, "s"); ds = False
    elif a == "FIN":
      m = max(np.abs(lay.kernel.numpy()).max(), np.abs(lay.scale.numpy()).max(), 1.0)
      mag = float(10.0 ** np.ceil(np.log10(m)))
      apply_constraints(lay, "f"); dk, ds = False, False
    return self.read(dk, ds, mag)

  def invariant(self, st, hist):
    k, s, dk, ds, mag = st
    if dk or ds:
      return None  # not settled: a raw perturbation has not been followed by both constraints
    self.restore(st)
    out = evaluate(self.layer, self.cfg, 1, self.X).reshape(-1, 1)
    res = judge_outputs(self.cfg, out, self.X, self.pts, extra_tol=1e-5 * mag)
    msgs = [m for _, _, m in res]
    try:
      self.layer.assert_constraints(eps=1e-3 + 1e-5 * mag)
    except Exception as e:  # pylint: disable=broad-except
      msgs.append("assert_constraints fails in a settled state: %s" % str(e)[:150])
    return "; ".join(msgs) or None


def _e2_inits(cfg):
  e = cfg["L"] * cfg["dims"] * cfg["terms"]
  t = cfg["terms"]
  base = [
      (tuple([1.0] * e), tuple([1.0] * t), True, True, "ones"),
      (tuple(float((-1) ** i * (i + 1)) for i in range(e)), tuple([-1.0] * t), True, True, "alternating"),
      (tuple([50.0 - 20 * i for i in range(e)]), tuple([3.0 if i % 2 else -3.0 for i in range(t)]), True, True, "big-antimonotone"),
  ]
  return [((k, s, dk, ds, 1.0), name) for k, s, dk, ds, name in base]


def e2_explore(ctx, cfg):
  sysm = _E2(cfg)
  acts = _e2_actions(cfg)
  # the constructed layer's own initial state is settled by definition
  inits = [(sysm.read(False, False), "constructed")] + _e2_inits(cfg)
  depth = 3 if ctx.quick else 4
  res = explorer.bfs(inits, lambda st: acts, sysm.step, lambda st: st, sysm.invariant, depth,
                     max_states=200000, over_budget=ctx.over_budget)
  settled = sum(1 for k in res.histories if not (k[2] or k[3]))
  ctx.add(evaluations=res.transitions, nontrivial=settled, states=res.states,
          transitions=res.transitions, traces=settled)
  ctx.tab("e2", "states", res.states)
  ctx.tab("e2", "settled_states_checked", settled)
  ctx.tab("e2", "transitions", res.transitions)
  ctx.tab("e2", "max_depth", res.max_depth)
  if not res.exhausted:
    ctx.cap("E2 %s stopped early (state cap / budget)" % (cfg,))
  # replay determinism: re-run a few complete histories on a FRESH layer
  check = [h for h in list(res.histories.values())[-6:]]
  fresh = _E2(cfg)
  lut = dict(inits_lut(inits, fresh))
  for h in check:
    st = lut.get(h[0][1])
    if st is None:
      continue
    for act in h[1:]:
      st = fresh.step(st, act)
    if st not in res.histories:
      raise RuntimeError("E2 replay divergence for history %r" % (h,))
    ctx.add(traces=1)
  for hist, st, msg in res.violations:
    acts_only = [list(a) for a in hist[1:]]
    kinds = "assert" if "assert_constraints" in msg and "output" not in msg else (
        "monotonicity" if "decreases" in msg else "bounds")
    sig = dict(violated=kinds, any_mono=int(any(cfg["mono"])), bounds=cfg["bounds"], clip=1, e2=1)
    ctx.violation(sig, dict(kind="e2", cfg=cfg, init=hist[0][1], actions=acts_only), msg)
  ctx.sample(dict(e2_cfg=cfg, example_history=[list(a) for a in list(res.histories.values())[-1]]), limit=5)


def inits_lut(inits, sysm):
  for st, name in inits:
    if name == "constructed":
      yield name, sysm.read(False, False)
    else:
      yield name, st


def e2_replay(case):
  cfg = case["cfg"]
  sysm = _E2(cfg)
  lut = dict(inits_lut([(sysm.read(False, False), "constructed")] + _e2_inits(cfg), sysm))
  st = lut[case["init"]]
  for act in case["actions"]:
    st = sysm.step(st, tuple(act))
  return sysm.invariant(st, None)


def work(ctx, item):
  if item.get("kind") == "e2":
    e2_explore(ctx, item)
  else:
    explore_config(ctx, item)


def run(ctx):
  items = configs(ctx.tier, ctx.seed) + e2_configs(ctx.tier)
  ctx.rule = (
      "E1: lattice_sizes {2,3} x dims {1,2,3} x terms {1,2} x every monotonicity subset x bounds "
      "{none,min,max,both} x clip_inputs; per unit ALL kernel words over {-1,0,.5,2}^e (reduced "
      "alphabets for e>6, reported in tables) x ALL scale words over {-2,-.5,0,.5,2}^terms, both "
      "constraint orders, packed as units; real constraints then real layer evaluation on the full "
      "input grid. E2: BFS over raw perturbations / kernel constraint / scale constraint / "
      "finalize_constraints from constructed and hostile states; invariant checked in every settled "
      "state. Non-trivial = unit whose kernel was changed by the constraints (E1) / settled state (E2).")
  ctx.assumptions += ["float32; tolerance 5e-4*max(1,|output|) (tf.pow in the bound projection is ~1e-4 accurate)",
                      "in-range points only when clip_inputs is off (as the property states)"]
  pool.pmap(ctx, "vt.checks.c07", "work", items)
