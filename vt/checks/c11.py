"""C11 - Config and weight round-trips reproduce the same function.

E1: constructor-argument products per class; E2: training histories with a
serialize->restore action insertable at every position.
"""
import itertools
import json
import os
import shutil
import tempfile

import numpy as np

from vt.core import alpha, bind, explorer, pool
from vt.ref import lattice as rl

ID = "C11"
LEVEL = "model_checking"


def norm(o):
  """JSON-normal form of a config for comparison (tuples == lists, numpy scalars == floats)."""
  if isinstance(o, dict):
    return {str(k): norm(v) for k, v in sorted(o.items(), key=lambda kv: str(kv[0]))}
  if isinstance(o, (list, tuple)):
    return [norm(v) for v in o]
  if isinstance(o, np.ndarray):
    return norm(o.tolist())
  if isinstance(o, (np.floating, float)):
    return float(o)
  if isinstance(o, (np.integer,)):
    return int(o)
  if hasattr(o, "get_config") and not isinstance(o, type):
    return {"__obj__": type(o).__name__, "config": norm(o.get_config())}
  if hasattr(o, "numpy"):
    return norm(np.asarray(o.numpy()))
  return o


def jsonable_cfg(cfg):
  return json.loads(json.dumps(norm(cfg)))


# ---------------------------------------------------------------- specs (E1)
def specs():
  """name -> dict(kind, make(kwargs)->obj, space: arg -> [values], input for layers)."""
  tf, tfl = bind.bind()
  from tensorflow_lattice.python import (lattice_layer, pwl_calibration_layer as pl,
                                         linear_layer, categorical_calibration_layer as cl,
                                         kronecker_factored_lattice_layer as kl, cdf_layer,
                                         pwl_calibration_lib as plib)
  S = {}
  S["Lattice"] = dict(
      kind="layer", cls=tfl.layers.Lattice, dims=2,
      fixed=dict(lattice_sizes=[3, 2]),
      space=dict(
          units=[1, 2], monotonicities=[None, [1, 0], ["increasing", "increasing"]],
          unimodalities=[None, ["valley", 0]],
          edgeworth_trusts=[None, (1, 0, "positive"), [(1, 0, -1)]],
          trapezoid_trusts=[None, (1, 0, 1)],
          monotonic_dominances=[None, (1, 0)], range_dominances=[None, [(0, 1)]],
          joint_monotonicities=[None, (0, 1)],
          output_min=[None, -1.0], output_max=[None, 2.0],
          num_projection_iterations=[10, 3], monotonic_at_every_step=[True, False],
          clip_inputs=[True, False], interpolation=["hypercube", "simplex"],
          kernel_initializer=["random_uniform_or_linear_initializer", "random_monotonic_initializer"],
          kernel_regularizer=[None, ("torsion", 0.1, 0.2), [("laplacian", [0.1, 0.0], 0.3), ("torsion", 0.0, 0.5)]]),
      valid=lambda kw: _lattice_valid(kw))
  S["Lattice-joint-unimodal"] = dict(
      kind="layer", cls=tfl.layers.Lattice, dims=2, fixed=dict(lattice_sizes=[3, 3]),
      space=dict(joint_unimodalities=[((0, 1), "valley"), [((0,), "peak")]], units=[1, 2],
                 output_min=[None, 0.0], output_max=[None, 1.0]),
      valid=lambda kw: True)
  S["PWLCalibration"] = dict(
      kind="layer", cls=tfl.layers.PWLCalibration, dims=1,
      fixed=dict(input_keypoints=[0.0, 1.0, 3.0]),
      space=dict(
          units=[1, 2], output_min=[None, 0.0], output_max=[None, 2.0], clamp_min=[False, True],
          clamp_max=[False, True], monotonicity=["none", "increasing", -1],
          convexity=["none", "convex"], is_cyclic=[False, True],
          kernel_initializer=["equal_heights", "equal_slopes"],
          kernel_regularizer=[None, ("hessian", 0.0, 1e-2), [("laplacian", 0.1, 0.0), ("wrinkle", 0.0, 0.2)]],
          impute_missing=[False, True], missing_input_value=[None, -1.0],
          missing_output_value=[None, 0.5], num_projection_iterations=[8, 2],
          split_outputs=[False, True], input_keypoints_type=["fixed", "learned_interior"]),
      valid=lambda kw: _pwl_valid(kw))
  S["CategoricalCalibration"] = dict(
      kind="layer", cls=tfl.layers.CategoricalCalibration, dims=1, int_input=True,
      fixed=dict(num_buckets=3),
      space=dict(units=[1, 2], output_min=[None, 0.0], output_max=[None, 1.0],
                 monotonicities=[None, [(0, 1)], [(0, 1), (1, 2)]],
                 kernel_initializer=["uniform", "constant"],
                 kernel_regularizer=[None, "L2OBJ"],
                 default_input_value=[None, -1, 0], split_outputs=[False, True]),
      valid=lambda kw: True)
  S["Linear"] = dict(
      kind="layer", cls=tfl.layers.Linear, dims=3,
      fixed=dict(num_input_dims=3),
      space=dict(units=[1, 2], monotonicities=[None, [1, 1, 0], "increasing", [-1, -1, 0]],
                 monotonic_dominances=[None, [(0, 1)]], range_dominances=[None, [(0, 1)]],
                 input_min=[None, [0.0, 0.0, None]], input_max=[None, [1.0, 2.0, None]],
                 use_bias=[True, False], normalization_order=[None, 1, 2],
                 kernel_initializer=["random_uniform", "ones"], kernel_regularizer=[None, "L1OBJ"]),
      valid=lambda kw: _linear_valid(kw))
  S["KroneckerFactoredLattice"] = dict(
      kind="layer", cls=tfl.layers.KroneckerFactoredLattice, dims=2, tensorshape=True,
      fixed=dict(lattice_sizes=3),
      space=dict(units=[1, 2], num_terms=[2, 1], monotonicities=[None, [1, 0], ["increasing", "none"]],
                 output_min=[None, 0.0], output_max=[None, 1.0], clip_inputs=[True, False]),
      valid=lambda kw: True)
  S["CDF"] = dict(
      kind="layer", cls=tfl.layers.CDF, dims=2, callbuild=True,
      fixed=dict(num_keypoints=3),
      space=dict(units=[1, 2], activation=["relu6", "sigmoid"], reduction=["mean", "geometric_mean", "none"],
                 input_scaling_init=[None, 2.5],
                 input_scaling_type=["fixed", "learned_shared", "learned_per_input"],
                 input_scaling_monotonicity=["increasing", "none"], sparsity_factor=[1, 2]),
      valid=lambda kw: kw.get("units", 1) % kw.get("sparsity_factor", 1) == 0)
  S["RTL"] = dict(
      kind="layer", cls=tfl.layers.RTL, dims=4, rtl=True,
      fixed=dict(num_lattices=3, lattice_rank=2),
      space=dict(lattice_size=[2, 3], output_min=[None, 0.0], output_max=[None, 1.0],
                 init_min=[None], init_max=[None], separate_outputs=[False, True],
                 random_seed=[1, 5], num_projection_iterations=[10, 2],
                 monotonic_at_every_step=[True, False], clip_inputs=[True, False],
                 interpolation=["hypercube", "simplex"],
                 parameterization=["all_vertices", "kronecker_factored"], num_terms=[2, 1],
                 avoid_intragroup_interaction=[True, False],
                 kernel_initializer=["random_monotonic_initializer", "kfl_random_monotonic_initializer", "linear_initializer"],
                 kernel_regularizer=[None, ("torsion", 0.1, 0.2), [("laplacian", 0.1, 0.0), ("torsion", 0.0, 0.5)]],
                 average_outputs=[False, True]),
      valid=lambda kw: _rtl_valid(kw))
  # constraints
  S["LatticeConstraints"] = dict(
      kind="constraint", cls=lattice_layer.LatticeConstraints, wshape=(6, 2),
      fixed=dict(lattice_sizes=[3, 2]),
      space=dict(monotonicities=[None, [1, 0], ["increasing", "increasing"]],
                 unimodalities=[None, ["valley", 0]],
                 edgeworth_trusts=[None, [(1, 0, "positive")]], trapezoid_trusts=[None, [(1, 0, -1)]],
                 monotonic_dominances=[None, [(1, 0)]], range_dominances=[None, [(0, 1)]],
                 joint_monotonicities=[None, [(0, 1)]], output_min=[None, -1.0], output_max=[None, 1.0],
                 num_projection_iterations=[1, 4], enforce_strict_monotonicity=[True, False]),
      valid=lambda kw: _lattice_valid(kw))
  S["PWLCalibrationConstraints"] = dict(
      kind="constraint", cls=pl.PWLCalibrationConstraints, wshape=(3, 2),
      fixed=dict(lengths=[1.0, 2.0]),
      space=dict(monotonicity=["none", "increasing", -1], convexity=["none", "concave"],
                 output_min=[None, 0.0], output_max=[None, 1.0],
                 output_min_constraints=[plib.BoundConstraintsType.NONE, plib.BoundConstraintsType.BOUND,
                                         plib.BoundConstraintsType.CLAMPED],
                 output_max_constraints=[plib.BoundConstraintsType.NONE, plib.BoundConstraintsType.BOUND],
                 num_projection_iterations=[8, 1]),
      valid=lambda kw: ((kw.get("output_min") is None) == (kw.get("output_min_constraints", plib.BoundConstraintsType.NONE) == plib.BoundConstraintsType.NONE)
                        and (kw.get("output_max") is None) == (kw.get("output_max_constraints", plib.BoundConstraintsType.NONE) == plib.BoundConstraintsType.NONE)
                        and not (kw.get("output_min_constraints") == plib.BoundConstraintsType.CLAMPED and kw.get("monotonicity", "none") == "none")))
  S["NaiveBoundsConstraints"] = dict(
      kind="constraint", cls=pl.NaiveBoundsConstraints, wshape=(1, 2), fixed={},
      space=dict(lower_bound=[None, 0.0], upper_bound=[None, 1.0]), valid=lambda kw: True)
  S["LinearConstraints"] = dict(
      kind="constraint", cls=linear_layer.LinearConstraints, wshape=(3, 2), fixed={},
      space=dict(monotonicities=[[0, 0, 0], [1, 1, 0], [-1, -1, 1]],
                 monotonic_dominances=[None, [(0, 1)]], range_dominances=[None, [(0, 1)]],
                 input_min=[None, [0.0, 0.0, None]], input_max=[None, [1.0, 2.0, None]],
                 normalization_order=[None, 1]),
      valid=lambda kw: _linear_valid(kw))
  S["CategoricalCalibrationConstraints"] = dict(
      kind="constraint", cls=cl.CategoricalCalibrationConstraints, wshape=(3, 2), fixed={},
      space=dict(output_min=[None, 0.0], output_max=[None, 1.0], monotonicities=[None, [(0, 1)], [(0, 2), (1, 2)]]),
      valid=lambda kw: True)
  S["ScaleConstraints"] = dict(
      kind="constraint", cls=kl.ScaleConstraints, wshape=(2, 2), fixed={},
      space=dict(output_min=[None, 0.0], output_max=[None, 1.0]), valid=lambda kw: True)
  # initializers
  S["LinearInitializer"] = dict(
      kind="initializer", cls=lattice_layer.LinearInitializer, wshape=(6, 2),
      fixed=dict(lattice_sizes=[3, 2]),
      space=dict(monotonicities=[[1, 0], [0, 0], ["increasing", 1]], output_min=[0.0, -2.0],
                 output_max=[1.0, 5.0], unimodalities=[None, ["valley", 0], [-1, 0]]),
      valid=lambda kw: not (kw.get("unimodalities") and kw["unimodalities"][0] and kw["monotonicities"][0] not in (0,)))
  S["RandomMonotonicInitializer"] = dict(
      kind="initializer", cls=lattice_layer.RandomMonotonicInitializer, wshape=(6, 2), random=True,
      fixed=dict(lattice_sizes=[3, 2]),
      space=dict(output_min=[0.0, -2.0], output_max=[1.0, 5.0], unimodalities=[None, ["valley", 0]]),
      valid=lambda kw: True)
  S["UniformOutputInitializer"] = dict(
      kind="initializer", cls=pl.UniformOutputInitializer, wshape=(3, 2), fixed={},
      space=dict(output_min=[0.0, -1.0], output_max=[1.0, 3.0], monotonicity=["none", "increasing", "decreasing", -1],
                 keypoints=[None, [0.0, 1.0, 3.0]]),
      valid=lambda kw: True)
  S["KFLRandomMonotonicInitializer"] = dict(
      kind="initializer", cls=kl.KFLRandomMonotonicInitializer, wshape=(1, 3, 2, 2), random=True,
      needs_scale=True, fixed={},
      space=dict(monotonicities=[None, [1, 0], ["increasing", "none"]], init_min=[0.5, 0.0],
                 init_max=[1.5, 1.0], seed=[None, 3]),
      valid=lambda kw: True)
  S["ScaleInitializer"] = dict(
      kind="initializer", cls=kl.ScaleInitializer, wshape=(2, 3), fixed={},
      space=dict(output_min=[None, 0.0, -1.0], output_max=[None, 1.0, 4.0]),
      valid=lambda kw: True)
  S["BiasInitializer"] = dict(
      kind="initializer", cls=kl.BiasInitializer, wshape=(2,), fixed={},
      space=dict(output_min=[None, 0.0, -1.0], output_max=[None, 1.0, 4.0]), valid=lambda kw: True)
  # regularizers
  for nm, c in (("TorsionRegularizer", lattice_layer.TorsionRegularizer),
                ("LaplacianRegularizer", lattice_layer.LaplacianRegularizer)):
    S[nm] = dict(kind="regularizer", cls=c, wshape=(6, 2), fixed=dict(lattice_sizes=[3, 2]),
                 space=dict(l1=[0.0, 0.5, [0.5, 0.0]], l2=[0.0, 2.0, [1.0, 3.0]]), valid=lambda kw: True)
  for nm, c in (("PWL-LaplacianRegularizer", pl.LaplacianRegularizer),
                ("HessianRegularizer", pl.HessianRegularizer), ("WrinkleRegularizer", pl.WrinkleRegularizer)):
    S[nm] = dict(kind="regularizer", cls=c, wshape=(4, 2), fixed={},
                 space=dict(l1=[0.0, 0.5], l2=[0.0, 2.0], is_cyclic=[False, True]), valid=lambda kw: True)
  return S


def _lattice_valid(kw):
  mono = kw.get("monotonicities")
  cm = [1 if m in (1, "increasing") else 0 for m in (mono or [0, 0])]
  uni = kw.get("unimodalities")
  if uni and any(u not in (0, "none") and cm[i] for i, u in enumerate(uni)):
    return False
  def lst(v):
    if v is None:
      return []
    return [v] if isinstance(v, tuple) and not isinstance(v[0], (tuple, list)) else list(v)
  trusts = lst(kw.get("edgeworth_trusts")) + lst(kw.get("trapezoid_trusts"))
  mains, conds, dirs = set(), set(), {}
  for m, c, s in trusts:
    s = {"positive": 1, "negative": -1}.get(s, s)
    if not cm[m]:
      return False
    if dirs.setdefault((m, c), s) != s:
      return False
    mains.add(m); conds.add(c)
  if mains & conds:
    return False
  for key in ("monotonic_dominances", "range_dominances"):
    for a, b in lst(kw.get(key)):
      if not (cm[a] and cm[b]):
        return False
  return True


def _pwl_valid(kw):
  mono = kw.get("monotonicity", "none") not in ("none", 0)
  conv = kw.get("convexity", "none") not in ("none", 0)
  if kw.get("is_cyclic") and (mono or conv):
    return False
  if (kw.get("missing_input_value") is not None or kw.get("missing_output_value") is not None) and not kw.get("impute_missing"):
    return False
  if kw.get("impute_missing") and kw.get("missing_input_value") is None:
    return False  # would need the (input, is_missing) call form; covered by C05
  if conv and kw.get("input_keypoints_type") == "learned_interior":
    return False
  if (kw.get("clamp_min") and kw.get("output_min") is not None and not mono) or (
      kw.get("clamp_max") and kw.get("output_max") is not None and not mono):
    return False
  return True


def _linear_valid(kw):
  mono = kw.get("monotonicities")
  if mono is None:
    cm = [0, 0, 0]
  elif isinstance(mono, str) or isinstance(mono, int):
    cm = [1, 1, 1]
  else:
    cm = [{1: 1, -1: -1, 0: 0, "increasing": 1}.get(m, 0) for m in mono]
  md, rd = kw.get("monotonic_dominances"), kw.get("range_dominances")
  if md and any(cm[a] != 1 or cm[b] != 1 for a, b in md):
    return False
  if rd:
    if any(cm[a] != cm[b] or cm[a] == 0 for a, b in rd):
      return False
    if not kw.get("input_min") or not kw.get("input_max"):
      return False
  if md and rd:
    return False
  return True


def _rtl_valid(kw):
  par = kw.get("parameterization", "all_vertices")
  init = kw.get("kernel_initializer")
  if par == "kronecker_factored":
    if init != "kfl_random_monotonic_initializer" or kw.get("kernel_regularizer") is not None:
      return False
  elif init == "kfl_random_monotonic_initializer":
    return False
  return True


def combos(space, cap=4096):
  """Full product if small, else all single and pairwise non-default settings (cap reported)."""
  keys = sorted(space)
  sizes = [len(space[k]) for k in keys]
  total = int(np.prod(sizes))
  if total <= cap:
    for vals in itertools.product(*[space[k] for k in keys]):
      yield dict(zip(keys, vals)), True
    return
  base = {k: space[k][0] for k in keys}
  yield dict(base), False
  for k in keys:
    for v in space[k][1:]:
      d = dict(base); d[k] = v
      yield d, False
  for k1, k2 in itertools.combinations(keys, 2):
    for v1 in space[k1][1:]:
      for v2 in space[k2][1:]:
        d = dict(base); d[k1] = v1; d[k2] = v2
        yield d, False


def custom_objects():
  tf, tfl = bind.bind()
  from tensorflow_lattice.python import pwl_calibration_layer as pl, cdf_layer
  co = tfl.premade.get_custom_objects()
  co = dict(co)
  co.setdefault("UniformOutputInitializer", pl.UniformOutputInitializer)
  co.setdefault("HessianRegularizer", pl.HessianRegularizer)
  co.setdefault("WrinkleRegularizer", pl.WrinkleRegularizer)
  co.setdefault("CDF", cdf_layer.CDF)
  return co


def _layer_input(spec, kw):
  tf, tfl = bind.bind()
  units = kw.get("units", 1)
  d = spec["dims"]
  if spec.get("rtl"):
    X = np.array(list(itertools.product([0.0, 0.5, 1.0], repeat=4)), dtype=np.float32)
    return {"increasing": tf.constant(X[:, :2]), "unconstrained": tf.constant(X[:, 2:])}
  if spec.get("int_input"):
    dv = kw.get("default_input_value")
    base = np.array([[0], [1], [2], [dv if dv is not None else 0]], dtype=np.int32)
    return tf.constant(base)
  g = [-0.5, 0.0, 0.4, 1.0, 1.7, 2.5, -1.0]
  X = np.array(list(itertools.product(g[:5], repeat=d)) if d > 1 else [[v] for v in g], dtype=np.float32)
  cls = spec["cls"].__name__
  if cls in ("Lattice", "KroneckerFactoredLattice", "Linear") and units > 1:
    X = np.repeat(X[:, None, :], units, axis=1)
  return tf.constant(X)


def _flat_out(o):
  tf, _ = bind.bind()
  if isinstance(o, dict):
    return np.concatenate([np.asarray(o[k]) for k in sorted(o)], axis=1)
  if isinstance(o, (list, tuple)):
    return np.concatenate([np.asarray(v) for v in o], axis=1)
  return np.asarray(o)


def check_one(name, spec, kw):
  """Returns list of (clause, message)."""
  tf, tfl = bind.bind()
  import tf_keras as keras
  cls = spec["cls"]
  args = dict(spec["fixed"]); args.update({k: v for k, v in kw.items()})
  if args.get("kernel_regularizer") == "L2OBJ":
    args["kernel_regularizer"] = keras.regularizers.L2(0.01)
  if args.get("kernel_regularizer") == "L1OBJ":
    args["kernel_regularizer"] = keras.regularizers.L1(0.02)
  out = []
  try:
    tf.random.set_seed(11); np.random.seed(11)
    obj = cls(**args)
  except Exception as e:  # pylint: disable=broad-except
    return [("construct", "valid arguments rejected: %s: %s" % (type(e).__name__, str(e)[:150]))]
  if spec["kind"] == "layer":
    try:
      obj(_layer_input(spec, kw))
    except Exception as e:  # pylint: disable=broad-except
      return [("original-unusable", "the ORIGINAL object cannot be built/called: %s: %s" %
               (type(e).__name__, str(e)[:160]))]
  cfg = obj.get_config()
  co = custom_objects()
  variants = [("direct", cfg)]
  if spec["kind"] != "constraint":
    try:
      variants.append(("json", json.loads(json.dumps(norm(cfg)))))
    except Exception as e:  # pylint: disable=broad-except
      out.append(("json", "get_config() is not JSON-serializable: %s" % str(e)[:120]))
  for how, c in variants:
    try:
      with keras.utils.custom_object_scope(co):
        tf.random.set_seed(11); np.random.seed(11)
        obj2 = cls.from_config(c if how == "direct" else dict(c))
    except Exception as e:  # pylint: disable=broad-except
      out.append(("from_config-" + how, "from_config(get_config()) failed: %s: %s" % (type(e).__name__, str(e)[:160])))
      continue
    c2 = obj2.get_config()
    if norm(c2) != norm(cfg):
      diff = [k for k in set(norm(cfg)) | set(norm(c2)) if norm(cfg).get(k) != norm(c2).get(k)]
      out.append(("config-equal-" + how, "rebuilt object's get_config() differs in %s: %r vs %r" %
                  (diff, {k: cfg.get(k) for k in diff}, {k: c2.get(k) for k in diff})))
    # behaviour
    try:
      msg = _behaviour(name, spec, kw, obj, obj2)
    except Exception as e:  # pylint: disable=broad-except
      msg = "rebuilt object fails when used: %s: %s" % (type(e).__name__, str(e)[:200])
    if msg:
      out.append(("behaviour-" + how, msg))
  return out


def _behaviour(name, spec, kw, a, b):
  tf, tfl = bind.bind()
  kind = spec["kind"]
  if kind == "layer":
    x = _layer_input(spec, kw)
    ya = _flat_out(a(x))
    yb0 = b(x)
    va, vb = a.variables, b.variables
    if [tuple(v.shape) for v in va] != [tuple(v.shape) for v in vb]:
      return "variables differ: %s vs %s" % ([tuple(v.shape) for v in va], [tuple(v.shape) for v in vb])
    na = [v.name.split("/")[-1] for v in va]; nb = [v.name.split("/")[-1] for v in vb]
    if na != nb:
      return "variable names differ: %s vs %s" % (na, nb)
    # perturb weights of a within constraints, copy to b
    ws = []
    for v in va:
      w = v.numpy()
      w = w + 0.3 * np.sin(np.arange(w.size).reshape(w.shape) * 1.7 + 0.5).astype(w.dtype) if w.dtype.kind == "f" else w
      if v.constraint is not None:
        w = np.asarray(v.constraint(tf.constant(w)))
      ws.append(w)
    a.set_weights(ws); b.set_weights(ws)
    ya, yb = _flat_out(a(x)), _flat_out(b(x))
    if ya.shape != yb.shape or not np.all(np.abs(ya - yb) <= 1e-6 * np.maximum(1, np.abs(ya))):
      return "outputs differ with identical weights (max %.4g)" % (np.abs(ya - yb).max() if ya.shape == yb.shape else -1)
    # constraints of the rebuilt layer behave the same
    for vi, (v1, v2) in enumerate(zip(va, vb)):
      if (v1.constraint is None) != (v2.constraint is None):
        return "variable %s has a constraint in only one of the two layers" % v1.name
      if v1.constraint is not None:
        w = ws[vi] + 0.8 * np.cos(np.arange(ws[vi].size).reshape(ws[vi].shape))
        o1 = np.asarray(v1.constraint(tf.constant(w.astype(np.float32))))
        o2 = np.asarray(v2.constraint(tf.constant(w.astype(np.float32))))
        if not np.all(np.abs(o1 - o2) <= 1e-6 * np.maximum(1, np.abs(o1))):
          return "constraint of %s behaves differently after the round trip" % v1.name
    la, lb = a.losses, b.losses
    if len(la) != len(lb) or any(abs(float(p) - float(q)) > 1e-5 * max(1, abs(float(p))) for p, q in zip(la, lb)):
      return "regularization losses differ: %s vs %s" % ([float(p) for p in la], [float(q) for q in lb])
    return None
  shape = spec["wshape"]
  W = (np.sin(np.arange(int(np.prod(shape))) * 1.3) * 2.0).reshape(shape).astype(np.float32)
  if kind == "constraint":
    oa, ob = np.asarray(a(tf.constant(W))), np.asarray(b(tf.constant(W)))
    if not np.all(np.abs(oa - ob) <= 1e-6):
      return "constraint projects differently after the round trip"
  elif kind == "regularizer":
    if abs(float(a(tf.constant(W))) - float(b(tf.constant(W)))) > 1e-5:
      return "regularizer value differs after the round trip"
  else:
    extra = {}
    if spec.get("needs_scale"):
      extra["scale"] = tf.constant([[1.0, -1.0]])
    tf.random.set_seed(3); np.random.seed(3)
    ia = np.asarray(a(shape, dtype=tf.float32, **extra))
    tf.random.set_seed(3); np.random.seed(3)
    ib = np.asarray(b(shape, dtype=tf.float32, **extra))
    if ia.shape != ib.shape or np.abs(ia - ib).max() > 1e-6:
      return "initializer produces different values after the round trip"
  return None


# --------------------------------------------------------------- config objs
def config_items():
  return [dict(kind="configs", which=w) for w in ("feature", "regularizer-trust-dominance", "lattice",
                                                   "linear", "ensemble", "aggregate")]


def _feature_configs(tfl, variant=0):
  T, D, R = tfl.configs.TrustConfig, tfl.configs.DominanceConfig, tfl.configs.RegularizerConfig
  return [
      tfl.configs.FeatureConfig(name="a", lattice_size=3, monotonicity="increasing",
                                pwl_calibration_input_keypoints=[0.0, 1.0, 2.0], default_value=-1.0,
                                dominates=[D(feature_name="b")] if variant else None,
                                regularizer_configs=[R("calib_hessian", 0.0, 1e-3)]),
      tfl.configs.FeatureConfig(name="b", lattice_size=3, monotonicity=1,
                                pwl_calibration_input_keypoints=[0.0, 0.5, 2.0],
                                pwl_calibration_always_monotonic=True, pwl_calibration_convexity="convex",
                                pwl_calibration_clamp_min=True,
                                reflects_trust_in=[T(feature_name="a", trust_type="trapezoid", direction="negative")] if variant else None),
      tfl.configs.FeatureConfig(name="c", lattice_size=3, num_buckets=3, monotonicity=[(0, 1)],
                                default_value=-1, vocabulary_list=["x", "y"]),
      tfl.configs.FeatureConfig(name="d", lattice_size=3, unimodality="valley" if variant else "none",
                                pwl_calibration_input_keypoints=[-1.0, 0.0, 1.0],
                                pwl_calibration_input_keypoints_type="learned_interior",
                                regularizer_configs=[R("laplacian", 0.1, 0.0)] if variant else None),
  ]


def configs_case(item):
  tf, tfl = bind.bind()
  import tf_keras as keras
  co = custom_objects()
  w = item["which"]
  objs = []
  if w == "feature":
    objs = _feature_configs(tfl, 0) + _feature_configs(tfl, 1)
  elif w == "regularizer-trust-dominance":
    objs = [tfl.configs.RegularizerConfig("torsion", l1=0.1, l2=0.2), tfl.configs.RegularizerConfig("calib_wrinkle"),
            tfl.configs.TrustConfig("a"), tfl.configs.TrustConfig("a", "trapezoid", -1),
            tfl.configs.DominanceConfig("b"), tfl.configs.DominanceConfig("b", "monotonic")]
  elif w == "lattice":
    for par, oc, v in itertools.product(("all_vertices", "kronecker_factored"), (False, True), (0, 1)):
      objs.append(tfl.configs.CalibratedLatticeConfig(
          feature_configs=_feature_configs(tfl, v), parameterization=par, num_terms=3, output_calibration=oc,
          output_min=0.0, output_max=1.0, output_initialization=[0.0, 0.5, 1.0], interpolation="simplex",
          regularizer_configs=[tfl.configs.RegularizerConfig("torsion", 0.0, 1e-3)], random_seed=4,
          output_calibration_num_keypoints=3, output_calibration_input_keypoints_type="learned_interior"))
  elif w == "linear":
    for ub, oc in itertools.product((True, False), (False, True)):
      objs.append(tfl.configs.CalibratedLinearConfig(
          feature_configs=_feature_configs(tfl, 0), use_bias=ub, output_calibration=oc,
          output_initialization=[0.0, 1.0], output_min=-1.0, output_max=2.0,
          regularizer_configs=[tfl.configs.RegularizerConfig("calib_laplacian", 0.1, 0.0)]))
  elif w == "ensemble":
    for lat, sep, ulc in itertools.product(([["a", "b"], ["c", "d"], ["a", "d"]], "rtl_layer", "random"), (True, False), (False, True)):
      objs.append(tfl.configs.CalibratedLatticeEnsembleConfig(
          feature_configs=_feature_configs(tfl, 0), lattices=lat, num_lattices=3, lattice_rank=2,
          separate_calibrators=sep, use_linear_combination=ulc, use_bias=ulc, output_initialization=[0.0, 1.0],
          fix_ensemble_for_2d_constraints=not sep, random_seed=9))
  else:
    for mc, mm in itertools.product((False, True), (None, "increasing")):
      if mm is not None and not mc:
        continue
      objs.append(tfl.configs.AggregateFunctionConfig(
          feature_configs=_feature_configs(tfl, 0)[:2], middle_dimension=2, middle_lattice_size=3,
          middle_calibration=mc, middle_monotonicity=mm, middle_calibration_num_keypoints=4,
          output_initialization=[0.0, 1.0], output_min=0.0, output_max=1.0))
  msgs = []
  if w == "ensemble":
    # seed-derived structure: a 'random' ensemble config that went through get_config()/from_config()
    # materialises the same lattices as the original, whatever the global NumPy generator state is
    from tensorflow_lattice.python import premade_lib
    for nl, rank, seed in ((4, 2, 3), (5, 3, 11), (6, 2, 0)):
      mk = lambda: tfl.configs.CalibratedLatticeEnsembleConfig(
          feature_configs=_feature_configs(tfl, 0), lattices="random", num_lattices=nl, lattice_rank=rank,
          random_seed=seed, output_initialization=[0.0, 1.0])
      o1 = mk()
      with keras.utils.custom_object_scope(co):
        o2 = type(o1).from_config(json.loads(json.dumps(norm(o1.get_config()))), custom_objects=co)
      np.random.seed(4711)
      premade_lib.set_random_lattice_ensemble(o1)
      np.random.seed(12)
      np.random.rand(7)
      premade_lib.set_random_lattice_ensemble(o2)
      if norm(o1.lattices) != norm(o2.lattices):
        msgs.append("random ensemble (seed %d) rebuilt from its config gets lattices %s, original %s" %
                    (seed, o2.lattices, o1.lattices))
  for o in objs:
    cfg = o.get_config()
    for how in ("direct", "json"):
      try:
        c = cfg if how == "direct" else json.loads(json.dumps(norm(cfg)))
        with keras.utils.custom_object_scope(co):
          o2 = type(o).from_config(c, custom_objects=co) if how == "json" else type(o).from_config(c)
        if norm(o2.get_config()) != norm(cfg):
          k = [k for k in norm(cfg) if norm(cfg)[k] != norm(o2.get_config()).get(k)]
          msgs.append("%s %s round trip changes %s" % (type(o).__name__, how, k))
      except Exception as e:  # pylint: disable=broad-except
        msgs.append("%s.from_config(get_config()) [%s] failed: %s: %s" % (type(o).__name__, how, type(e).__name__, str(e)[:120]))
  return (len(objs) * 2), "; ".join(msgs[:3]) or None


# ------------------------------------------------------------ premade models
def model_specs():
  return ["calibrated-linear", "calibrated-lattice", "calibrated-lattice-kfl", "ensemble-explicit",
          "ensemble-rtl", "ensemble-random", "functional-stack"]


def build_model(which, seed=3):
  tf, tfl = bind.bind()
  import tf_keras as keras
  from tensorflow_lattice.python import premade_lib
  keras.utils.set_random_seed(seed)
  fcs = [tfl.configs.FeatureConfig(name="a", lattice_size=3, monotonicity="increasing",
                                   pwl_calibration_input_keypoints=[0.0, 1.0, 2.0], default_value=-1.0),
         tfl.configs.FeatureConfig(name="b", lattice_size=2, monotonicity="decreasing",
                                   pwl_calibration_input_keypoints=[0.0, 0.5, 2.0],
                                   # a per-feature regularizer next to the model-level ones below
                                   regularizer_configs=[tfl.configs.RegularizerConfig("calib_wrinkle", 0.0, 1e-3)]),
         tfl.configs.FeatureConfig(name="c", lattice_size=2, num_buckets=3, monotonicity=[(0, 1)],
                                   default_value=-1)]
  if which == "calibrated-linear":
    return tfl.premade.CalibratedLinear(tfl.configs.CalibratedLinearConfig(
        feature_configs=fcs, output_initialization=[0.0, 1.0], output_min=0.0, output_max=1.0,
        output_calibration=True, output_calibration_num_keypoints=3))
  if which == "calibrated-lattice":
    return tfl.premade.CalibratedLattice(tfl.configs.CalibratedLatticeConfig(
        feature_configs=fcs, output_min=0.0, output_max=1.0, output_initialization=[0.0, 1.0],
        regularizer_configs=[tfl.configs.RegularizerConfig("torsion", 0.0, 1e-2),
                             tfl.configs.RegularizerConfig("calib_hessian", 0.0, 1e-2)]))
  if which == "calibrated-lattice-kfl":
    f2 = [tfl.configs.FeatureConfig(name=f.name, lattice_size=2, monotonicity=f.monotonicity,
                                    pwl_calibration_input_keypoints=f.pwl_calibration_input_keypoints,
                                    num_buckets=f.num_buckets, default_value=f.default_value) for f in fcs]
    return tfl.premade.CalibratedLattice(tfl.configs.CalibratedLatticeConfig(
        feature_configs=f2, parameterization="kronecker_factored", num_terms=2, random_seed=seed,
        output_min=0.0, output_max=1.0, output_initialization=[0.0, 1.0]))
  if which.startswith("ensemble"):
    f2 = [tfl.configs.FeatureConfig(name=f.name, lattice_size=2, monotonicity=f.monotonicity,
                                    pwl_calibration_input_keypoints=f.pwl_calibration_input_keypoints,
                                    num_buckets=f.num_buckets, default_value=f.default_value) for f in fcs]
    lat = {"ensemble-explicit": [["a", "b"], ["b", "c"], ["a", "c"]], "ensemble-rtl": "rtl_layer",
           "ensemble-random": "random"}[which]
    mc = tfl.configs.CalibratedLatticeEnsembleConfig(
        feature_configs=f2, lattices=lat, num_lattices=3, lattice_rank=2, random_seed=seed + 1,
        output_initialization=[0.0, 1.0], use_linear_combination=(which == "ensemble-explicit"))
    if lat == "random":
      premade_lib.set_random_lattice_ensemble(mc)
    return tfl.premade.CalibratedLatticeEnsemble(mc)
  # hand-assembled functional model: calibrators -> RTL -> Linear
  ia = keras.layers.Input(shape=(1,), name="a"); ib = keras.layers.Input(shape=(1,), name="b")
  ic = keras.layers.Input(shape=(1,), name="c", dtype=tf.int32)
  ca = tfl.layers.PWLCalibration(input_keypoints=[0.0, 1.0, 2.0], output_min=0.0,
                                 output_max=1.0, monotonicity="increasing", impute_missing=True,
                                 missing_input_value=-1.0, missing_output_value=0.25, units=2)(ia)
  cb = tfl.layers.PWLCalibration(input_keypoints=[0.0, 0.5, 2.0], output_min=0.0,
                                 output_max=1.0, kernel_regularizer=("hessian", 0.0, 1e-2))(ib)
  cc = tfl.layers.CategoricalCalibration(num_buckets=3, output_min=0.0, output_max=1.0,
                                         monotonicities=[(0, 1)])(ic)
  r = tfl.layers.RTL(num_lattices=3, lattice_rank=2, random_seed=seed, output_min=0.0, output_max=1.0,
                     kernel_initializer="random_monotonic_initializer")({"increasing": [ca, cc], "unconstrained": cb})
  o = tfl.layers.Linear(num_input_dims=3, monotonicities=[1, 1, 1], normalization_order=1, use_bias=False)(r)
  return keras.Model(inputs=[ia, ib, ic], outputs=o)


def model_inputs():
  tf, _ = bind.bind()
  X = np.array(list(itertools.product([-1.0, 0.3, 1.2, 2.5], [0.0, 0.7, 3.0], [0, 1, 2, -1])), dtype=np.float32)
  return [tf.constant(X[:, 0:1]), tf.constant(X[:, 1:2]), tf.constant(X[:, 2:3].astype(np.int32))], X


def _labels(X):
  return (1.0 - 0.4 * X[:, 0] + 0.5 * X[:, 1] + 0.3 * (X[:, 2] == 0))[:, None].astype(np.float32)


def _restore(model, how, which):
  """serialize -> fresh object -> restore. Returns the restored model."""
  tf, tfl = bind.bind()
  import tf_keras as keras
  co = custom_objects()
  if how == "config+weights":
    with keras.utils.custom_object_scope(co):
      if which == "functional-stack":
        m2 = keras.Model.from_config(json.loads(json.dumps(norm(model.get_config()))), custom_objects=co)
      else:
        m2 = type(model).from_config(json.loads(json.dumps(norm(model.get_config()))), custom_objects=co)
    m2.set_weights(model.get_weights())
    return m2
  d = tempfile.mkdtemp(prefix="vt_c11_")
  try:
    if how == "h5":
      p = os.path.join(d, "m.h5")
      model.save(p, include_optimizer=False)
      return keras.models.load_model(p, custom_objects=co, compile=False)
    if how == "keras":
      p = os.path.join(d, "m.keras")
      model.save(p)
      return keras.models.load_model(p, custom_objects=co, compile=False)
    if how == "savedmodel":
      p = os.path.join(d, "sm")
      model.save(p, save_format="tf", include_optimizer=False)
      return keras.models.load_model(p, custom_objects=co, compile=False)
  finally:
    shutil.rmtree(d, ignore_errors=True)
  raise ValueError(how)


def _train_step(model, opt_name, lr, sign):
  tf, tfl = bind.bind()
  import tf_keras as keras
  xin, X = model_inputs()
  y = _labels(X)
  opt = keras.optimizers.SGD(learning_rate=lr) if opt_name == "sgd" else keras.optimizers.legacy.SGD(learning_rate=lr)
  with tf.GradientTape() as tape:
    out = model(xin)
    loss = sign * tf.reduce_mean(tf.square(out - y)) + (tf.add_n(model.losses) if model.losses else 0.0)
  grads = tape.gradient(loss, model.trainable_variables)
  gv = [(g, v) for g, v in zip(grads, model.trainable_variables) if g is not None]
  opt.apply_gradients(gv)


def model_case(item, ctx=None):
  """History = sequence of optimizer steps; a serialize->restore may be inserted at EVERY position.
  Invariant: outputs (and hence next-step behaviour) equal those of the uninterrupted history."""
  tf, tfl = bind.bind()
  which, how = item["which"], item["how"]
  steps = [("sgd", 0.5, 1.0), ("sgd", 5.0, -1.0), ("legacy", 0.5, 1.0)][: item.get("depth", 2)]
  xin, X = model_inputs()
  msgs = []
  total = 0
  # reference: uninterrupted history
  ref = build_model(which)
  w0 = ref.get_weights()  # every history starts from exactly these weights
  ref_outs = [np.asarray(ref(xin))]
  for s in steps:
    _train_step(ref, *s)
    ref_outs.append(np.asarray(ref(xin)))
  # a model rebuilt from the trained model's config reports an equal config and, with the same
  # weights, the same regularization losses (building must not mutate the live config objects)
  if how == "config+weights":
    try:
      m2 = _restore(ref, "config+weights", which)
      c1, c2 = norm(ref.get_config()), norm(m2.get_config())
      if c1 != c2:
        diff = [k for k in set(c1) | set(c2) if c1.get(k) != c2.get(k)] if isinstance(c1, dict) else "?"
        msgs.append("rebuilt model's get_config() differs from the original's (keys %s)" % (diff,))
      l1 = sorted(float(x) for x in ref.losses); l2 = sorted(float(x) for x in m2.losses)
      if len(l1) != len(l2) or any(abs(a - b) > 1e-5 * max(1.0, abs(a)) for a, b in zip(l1, l2)):
        msgs.append("regularization losses differ after rebuilding from config: %s vs %s" % (l1, l2))
    except Exception as e:  # pylint: disable=broad-except
      msgs.append("rebuilding the trained model from its config failed: %s: %s" % (type(e).__name__, str(e)[:200]))
  if item.get("structure"):
    # seed-derived structure is reproduced by config alone (fresh weights may differ)
    m2 = _restore(ref, "config+weights", which)
    for l1, l2 in zip(ref.layers, m2.layers):
      if hasattr(l1, "_rtl_structure") and repr(l1._rtl_structure) != repr(l2._rtl_structure):
        msgs.append("RTL structure differs after rebuilding from config")
    if hasattr(ref, "model_config") and hasattr(ref.model_config, "lattices"):
      if norm(ref.model_config.lattices) != norm(m2.model_config.lattices):
        msgs.append("ensemble lattices differ after rebuilding from config")
  for pos in range(len(steps) + 1):
    m = build_model(which)
    m.set_weights(w0)
    for k, s in enumerate(steps):
      if k == pos:
        try:
          m = _restore(m, how, which)
        except Exception as e:  # pylint: disable=broad-except
          msgs.append("save/restore via %s after %d steps failed: %s: %s" % (how, k, type(e).__name__, str(e)[:200]))
          m = None
          break
      _train_step(m, *s)
    if m is None:
      break
    if pos == len(steps):
      try:
        m = _restore(m, how, which)
      except Exception as e:  # pylint: disable=broad-except
        msgs.append("save/restore via %s after %d steps failed: %s: %s" % (how, pos, type(e).__name__, str(e)[:200]))
        break
    out = np.asarray(m(xin))
    total += out.size
    d = np.abs(out - ref_outs[-1]).max()
    if not d <= 1e-5 * max(1.0, np.abs(ref_outs[-1]).max()):
      msgs.append("restoring via %s at position %d changes the final outputs by %.4g" % (how, pos, d))
      break
    # constraint satisfaction preserved: variables with constraints are fixpoints (up to rounding)
    for v in m.variables:
      if getattr(v, "constraint", None) is not None:
        o = np.asarray(v.constraint(v))
        if np.abs(o - v.numpy()).max() > 1e-4:
          msgs.append("restored variable %s is not feasible for its constraint (moves by %.4g)" %
                      (v.name, np.abs(o - v.numpy()).max()))
          break
  if ctx is not None:
    ctx.add(evaluations=max(total, 1), nontrivial=len(steps) + 1, states=(len(steps) + 1) * (len(steps) + 1),
            transitions=(len(steps) + 1) * (len(steps) + 1), traces=len(steps) + 1)
    ctx.tab("e2_models", "%s/%s" % (which, how))
  return "; ".join(msgs[:3]) or None


# -------------------------------------------------------------------- driver
def replay(case):
  k = case["kind"]
  if k == "e1":
    S = specs()
    res = check_one(case["name"], S[case["name"]], _decode_kw(case["kw"], S[case["name"]]))
    return "; ".join("%s: %s" % r for r in res) or None
  if k == "configs":
    return configs_case(case)[1]
  return model_case(case)


def _encode_kw(kw, spec):
  """Index-encoded so that the exact Python values (tuples, enums) are reproduced on replay."""
  return {k: spec["space"][k].index(v) if v in spec["space"][k] else 0 for k, v in kw.items()}


def _decode_kw(enc, spec):
  return {k: spec["space"][k][i] for k, i in enc.items()}


def work(ctx, item):
  k = item["kind"]
  if k == "e1":
    S = specs()
    spec = S[item["name"]]
    n = nt = 0
    full = True
    for kw, is_full in combos(spec["space"], cap=item["cap"]):
      full = is_full
      if not spec["valid"](kw):
        continue
      res = check_one(item["name"], spec, kw)
      n += 1
      nt += int(any(kw[a] != spec["space"][a][0] for a in kw))
      for clause, msg in res:
        sig = dict(kind="e1", cls=item["name"], clause=clause)
        ctx.violation(sig, dict(kind="e1", name=item["name"], kw=_encode_kw(kw, spec)),
                      "%s(%s): %s" % (item["name"], {a: v for a, v in kw.items() if v != spec["space"][a][0]}, msg))
    if not full:
      ctx.note("%s: %d argument combinations exceed the cap %d; all single and pairwise non-default "
               "settings enumerated instead of the full product" %
               (item["name"], int(np.prod([len(v) for v in spec["space"].values()])), item["cap"]))
    ctx.add(evaluations=n, nontrivial=nt, states=n, transitions=2 * n, traces=n)
    ctx.tab("e1_classes", item["name"], n)
    ctx.sample(dict(cls=item["name"], combinations=n, full_product=full), limit=8)
  elif k == "configs":
    n, msg = configs_case(item)
    ctx.add(evaluations=n, nontrivial=n, states=n, transitions=n, traces=n)
    ctx.tab("e1_classes", "configs-" + item["which"], n)
    if msg:
      ctx.violation(dict(kind="configs", which=item["which"]), item, msg)
  else:
    msg = model_case(item, ctx)
    ctx.sample(item, limit=8)
    if msg:
      ctx.violation(dict(kind="e2", which=item["which"], how=item["how"],
                         what=("failed" if "failed" in msg else "structure" if "structure" in msg or "lattices differ" in msg
                               else "outputs" if "changes the final" in msg else "feasible")), item, msg)


def run(ctx):
  S = specs()
  cap = 600 if ctx.quick else 4096
  items = [dict(kind="e1", name=n, cap=cap) for n in S]
  items += config_items()
  hows = ["config+weights", "h5"] if ctx.quick else ["config+weights", "h5", "keras", "savedmodel"]
  for which in model_specs():
    for how in hows:
      items.append(dict(kind="e2", which=which, how=how, depth=2 if ctx.quick else 3,
                        structure=(how == "config+weights")))
  ctx.rule = (
      "E1: every public class with get_config (9 layers, 6 constraints, 6 initializers, 5 "
      "regularizers, 8 config classes) x the product of constructor arguments over {default, 1-2 "
      "non-default values} (full product up to the cap, else all single+pairwise settings): "
      "from_config(get_config()) directly and through JSON, equal configs, same variables, identical "
      "outputs/constraints/losses with copied weights; E2: 7 models x restore method x histories of "
      "optimizer steps with a serialize->restore inserted at EVERY position, final outputs equal to "
      "the uninterrupted history and restored variables feasible. Non-trivial = combination with "
      "at least one non-default argument / history with a restore.")
  ctx.assumptions += ["JSON normal form treats tuples and lists as equal",
                      "constraint objects are not required to be JSON-serializable (layers rebuild them)"]
  pool.pmap(ctx, "vt.checks.c11", "work", alpha.rotate(items, ctx.seed), chunk=1)
