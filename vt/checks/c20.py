"""C20 - Linear layer computes the clipped affine function its weights describe."""
import itertools

import numpy as np

from vt.core import alpha, bind, graph, pool
from vt.checks import c06

ID = "C20"
LEVEL = "exploration"
TOL = 1e-4
LO, HI = -1.0, 2.0   # the bound values used when an input is bounded
ZLO, ZHI = 0.0, 0.0  # 'zero' variants: a bound that is exactly 0.0 (falsy) must still clip


def eval_configs(tier):
  out = []
  for n in (1, 2, 3):
    for units in (1, 2, 3):
      bound_modes = list(itertools.product(("none", "lo", "hi", "both"), repeat=n))
      if n == 3 and tier == "quick":
        bound_modes = [b for b in bound_modes if b[0] == b[2] or "none" in b]
      for bm in bound_modes:
        for bias in (True, False):
          out.append(dict(kind="eval", n=n, units=units, bounds=list(bm), use_bias=bias))
      if units <= 2:
        for bm in itertools.product(("none", "zlo", "zhi"), repeat=n):
          if all(b == "none" for b in bm):
            continue
          out.append(dict(kind="eval", n=n, units=units, bounds=list(bm), use_bias=True))
  return out


def grid(n, bounds):
  axes = []
  for b in bounds:
    pts = [-1e6, -1e4, LO - 1.5, LO, (LO + HI) / 2, 0.25, HI, HI + 1.5, 1e4, 1e6]
    axes.append(pts)
  return np.array(list(itertools.product(*axes)), dtype=np.float64)


def build(cfg, kernel, bias, dtype=None, **extra):
  tf, tfl = bind.bind()
  n, units = cfg["n"], cfg["units"]
  if dtype is not None:
    extra = dict(extra, dtype=dtype)
  imin = [LO if b in ("lo", "both") else ZLO if b == "zlo" else None for b in cfg["bounds"]]
  imax = [HI if b in ("hi", "both") else ZHI if b == "zhi" else None for b in cfg["bounds"]]
  kw = {}
  if any(v is not None for v in imin):
    kw["input_min"] = imin
  if any(v is not None for v in imax):
    kw["input_max"] = imax
  kw.update(extra)
  layer = tfl.layers.Linear(num_input_dims=n, units=units, use_bias=cfg["use_bias"], **kw)
  layer.build((None, n) if units == 1 else (None, units, n))
  npd = np.float64 if dtype == "float64" else np.float32
  layer.kernel.assign(np.asarray(kernel, dtype=npd))
  if cfg["use_bias"]:
    layer.bias.assign(npd(bias[0]) if units == 1 else np.asarray(bias, dtype=npd))
  return layer


def ref_linear(cfg, kernel, bias, X):
  """X: (batch, units, n) -> (batch, units)."""
  Xc = X.copy()
  for i, b in enumerate(cfg["bounds"]):
    if b in ("lo", "both"):
      Xc[..., i] = np.maximum(Xc[..., i], LO)
    if b in ("hi", "both"):
      Xc[..., i] = np.minimum(Xc[..., i], HI)
    if b == "zlo":
      Xc[..., i] = np.maximum(Xc[..., i], ZLO)
    if b == "zhi":
      Xc[..., i] = np.minimum(Xc[..., i], ZHI)
  out = np.einsum("bui,iu->bu", Xc, kernel)
  mag = np.einsum("bui,iu->bu", np.abs(Xc), np.abs(kernel))  # condition of the float32 sum
  if cfg["use_bias"]:
    out = out + np.asarray(bias)[None, :]
    mag = mag + np.abs(np.asarray(bias))[None, :]
  return out, mag


def eval_case(cfg, ctx=None):
  tf, _ = bind.bind()
  n, units = cfg["n"], cfg["units"]
  Xg = grid(n, cfg["bounds"])
  words = alpha.words(alpha.A3, n)  # (n, 3^n)
  msgs = []
  total = 0
  # every block of `units` consecutive words is one multi-unit kernel: all words covered
  ncols = words.shape[1]
  for start in range(0, ncols, units):
    cols = [(start + u) % ncols for u in range(units)]
    K = words[:, cols] * np.array([1.0, 2.5, -0.5])[:units][None, :]
    bias = np.array([0.75, -3.0, 10.0])[:units]
    layer = build(cfg, K, bias)
    if units == 1:
      X = Xg[:, None, :]
      out = np.asarray(layer(tf.constant(Xg.astype(np.float32))), dtype=np.float64)
    else:
      X = np.stack([np.roll(Xg, 7 * u, axis=0) for u in range(units)], axis=1)
      out = np.asarray(layer(tf.constant(X.astype(np.float32))), dtype=np.float64)
    ref, mag = ref_linear(cfg, K, bias, X)
    total += ref.size
    if out.shape != ref.shape:
      msgs.append("output shape %s, expected %s" % (out.shape, ref.shape))
      break
    e = np.abs(out - ref) / np.maximum(1, mag)
    if not (e.max() <= TOL):
      r, u = np.unravel_index(e.argmax(), e.shape)
      msgs.append("kernel column %s bias %s input %s: layer %.6g, reference %.6g" %
                  (K[:, u].tolist(), bias[u] if cfg["use_bias"] else None, X[r, u].tolist(),
                   out[r, u], ref[r, u]))
      break
  if not msgs:
    # call forms of the same function on the last kernel block: traced with an unknown batch size,
    # one example at a time (batch 1), and a float64 layer (tighter tolerance: no float32 rounding)
    Xin = (Xg if units == 1 else X).astype(np.float32)
    gm = graph.graph_msg(layer, Xin)
    if gm:
      msgs.append("kernel %s: %s" % (K.tolist(), gm))
    for r in range(0, Xin.shape[0], max(1, Xin.shape[0] // 7)):
      o1 = np.asarray(layer(tf.constant(Xin[r:r + 1])), dtype=np.float64)
      if o1.shape != (1, units) or not np.allclose(o1[0], out[r], rtol=1e-6, atol=1e-6):
        msgs.append("kernel %s: batch-of-one call on row %d gives %s, the batched call %s" %
                    (K.tolist(), r, o1.tolist(), out[r].tolist()))
        break
    l64 = build(cfg, K, bias, dtype="float64")
    X64 = Xg if units == 1 else X
    o64 = np.asarray(l64(tf.constant(X64, dtype=tf.float64)), dtype=np.float64)
    e64 = np.abs(o64 - ref) / np.maximum(1, mag) if o64.shape == ref.shape else np.array([np.inf])
    if not (e64.max() <= 1e-9):
      msgs.append("float64 layer, kernel %s: output differs from the reference by %.3g (relative)" %
                  (K.tolist(), e64.max()))
    total += ref.size * 2 + 8
    if ctx is not None:
      ctx.tab("call_forms", "graph_batch1_float64")
  if ctx is not None:
    ctx.add(evaluations=total, nontrivial=total - Xg.shape[0], traces=total)
    ctx.tab("eval_configs", "n%d_u%d_bias%d" % (n, units, cfg["use_bias"]))
    ctx.tab("points", "outside_some_bound", int(np.any((Xg < LO) | (Xg > HI), axis=1).sum()))
  return "; ".join(msgs) or None


def consequence_case(cfg, ctx=None):
  """Weights produced by the layer's own constraint give monotone / dominant /
  weighted-average outputs of the REAL layer."""
  tf, tfl = bind.bind()
  lc = cfg["lcfg"]
  n = lc["n"]
  W = alpha.words(alpha.A6, n)
  Wc = c06.apply_linear(lc, W)  # (n, B) constrained by the real constraint
  B = Wc.shape[1]
  r = c06.ranges_for(lc)
  kw = {}
  if lc["rd"]:
    kw = dict(input_min=[a for a, _ in r], input_max=[b for _, b in r])
  layer = tfl.layers.Linear(num_input_dims=n, units=B, use_bias=False, **kw)
  layer.build((None, B, n))
  layer.kernel.assign(Wc.astype(np.float32))
  axes = [[-1.0, 0.0, 0.5, 1.0, 2.0, 3.0]] * n
  Xg = np.array(list(itertools.product(*axes)))
  out = np.asarray(layer(tf.constant(np.repeat(Xg[:, None, :], B, axis=1).astype(np.float32))),
                   dtype=np.float64)  # (G, B)
  lut = {tuple(p.tolist()): i for i, p in enumerate(Xg)}
  msgs = []
  tol = 1e-4 * np.maximum(1.0, np.abs(Wc).max(axis=0))
  # monotone in every constrained input for all ordered pairs
  for i, m in enumerate(lc["mono"]):
    if m == 0:
      continue
    for p in Xg:
      vals = sorted(axes[i])
      prev = None
      for v in vals:
        q = p.copy(); q[i] = v
        cur = out[lut[tuple(q.tolist())]]
        if prev is not None and ((cur - prev) * m < -tol).any():
          c = int(np.argmin((cur - prev) * m + tol))
          msgs.append("weights %s: output not monotone (%d) in input %d" % (Wc[:, c].tolist(), m, i))
          break
        prev = cur
      if msgs or p[i] != axes[i][0]:
        continue
    if msgs:
      break
  # monotonic dominance: per unit step the dominant input moves the output at least as much
  base = tuple([0.0] * n)
  for d, w in lc["md"]:
    pd = list(base); pd[d] = 1.0
    pw = list(base); pw[w] = 1.0
    ed = out[lut[tuple(pd)]] - out[lut[base]]
    ew = out[lut[tuple(pw)]] - out[lut[base]]
    if (ed - ew < -tol).any():
      msgs.append("monotonic dominance (%d over %d): unit-step effect smaller" % (d, w))
  # range dominance: across the full input ranges
  for d, w in lc["rd"]:
    def span(i):
      a, b = r[i]
      lo_p = list(base); lo_p[i] = a
      hi_p = list(base); hi_p[i] = b
      return np.abs(out[lut[tuple(hi_p)]] - out[lut[tuple(lo_p)]])
    if (span(d) - span(w) < -tol * 4).any():
      msgs.append("range dominance (%d over %d): full-range effect smaller" % (d, w))
  # weighted average
  if lc["norm"] == 1 and all(m == 1 for m in lc["mono"]):
    nz = np.abs(Wc).sum(axis=0) > 0.5
    Xe = Xg.copy()
    if lc["rd"]:  # the layer clips inputs to the configured ranges first
      Xe = np.clip(Xe, [a for a, _ in r], [b for _, b in r])
    lo_, hi_ = Xe.min(axis=1)[:, None], Xe.max(axis=1)[:, None]
    bad = ((out < lo_ - 1e-4) | (out > hi_ + 1e-4)) & nz[None, :]
    if bad.any():
      msgs.append("norm=1 all-increasing layer is not a weighted average of its inputs")
  if ctx is not None:
    ctx.add(evaluations=out.size, nontrivial=int((np.abs(Wc).sum(axis=0) > 0).sum()) * Xg.shape[0],
            traces=out.size)
    ctx.tab("consequence_configs", "md%d_rd%d_norm%s" % (len(lc["md"]), len(lc["rd"]), lc["norm"]))
  return "; ".join(msgs[:3]) or None


def replay(case):
  if case["kind"] == "eval":
    return eval_case(case)
  return consequence_case(case)


def work(ctx, item):
  msg = eval_case(item, ctx) if item["kind"] == "eval" else consequence_case(item, ctx)
  ctx.sample(item, limit=4)
  if msg:
    sig = dict(kind=item["kind"])
    if item["kind"] == "eval":
      sig.update(units1=int(item["units"] == 1), bias=int(item["use_bias"]),
                 bounded=int(any(b != "none" for b in item["bounds"])),
                 zero_bound=int(any(b in ("zlo", "zhi") for b in item["bounds"])),
                 partially_bounded=int(len(set(item["bounds"])) > 1))
    ctx.violation(sig, item, msg)


def run(ctx):
  items = eval_configs(ctx.tier)
  for lc in c06.linear_configs("quick"):
    if lc["n"] not in (2, 3):
      continue
    if ctx.quick and lc["n"] == 3 and not (lc["md"] or lc["rd"]) and lc["norm"] != 1:
      continue
    if not any(lc["mono"]):
      continue
    items.append(dict(kind="consequence", lcfg=lc))
  items = alpha.rotate(items, ctx.seed)
  ctx.rule = (
      "evaluation: dims 1-3 x units 1-3 x every per-input bound pattern {none,lo,hi,both}^n x "
      "bias on/off x ALL kernel words of {-1,0,1}^n (scaled per unit) x full grid of inputs "
      "inside/on/outside the bounds (different rows per unit); per configuration also the call traced "
      "with an unknown batch size, batch-of-one calls and a float64 layer (1e-9); consequences: every C06 linear "
      "configuration's real constraint applied to all words of {-2..3}^n, the resulting weights "
      "loaded into the real layer and checked for monotonicity (all ordered grid pairs), dominance "
      "effects and weighted-average behaviour. Non-trivial = evaluated (input, unit) with a "
      "non-zero kernel column.")
  ctx.assumptions += ["float32; relative tolerance 1e-4"]
  pool.pmap(ctx, "vt.checks.c20", "work", items)
