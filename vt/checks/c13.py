"""C13 - Regularizers compute the documented Laplacian/torsion/Hessian/wrinkle penalties."""
import itertools

import numpy as np

from vt.core import alpha, bind, pool
from vt.ref import lattice as rl

ID = "C13"
LEVEL = "exploration"
RTOL = 2e-4


# ---------------------------------------------------------------- references
def ref_lattice_laplacian(col, sizes, l1, l2):
  d = len(sizes)
  l1 = list(l1) if isinstance(l1, (list, tuple)) else [l1] * d
  l2 = list(l2) if isinstance(l2, (list, tuple)) else [l2] * d
  w = np.asarray(col, dtype=np.float64).reshape(sizes)
  tot = 0.0
  for k in range(d):
    diff = np.diff(w, axis=k)
    tot += l1[k] * np.abs(diff).sum() + l2[k] * (diff ** 2).sum()
  return tot


def ref_lattice_torsion(col, sizes, l1, l2):
  d = len(sizes)
  # scalar amount a: every pair weighted by a; list: pair (i,j) weighted by a[i]*a[j]
  def pair_w(a, i, j):
    if isinstance(a, (list, tuple)):
      return a[i] * a[j]
    return a
  w = np.asarray(col, dtype=np.float64).reshape(sizes)
  tot = 0.0
  for i in range(d):
    for j in range(i + 1, d):
      t = np.diff(np.diff(w, axis=i), axis=j)
      tot += pair_w(l1, i, j) * np.abs(t).sum() + pair_w(l2, i, j) * (t ** 2).sum()
  return tot


def ref_pwl(kind, col, l1, l2, cyclic):
  y = np.cumsum(np.asarray(col, dtype=np.float64))
  order = {"laplacian": 1, "hessian": 2, "wrinkle": 3}[kind]
  if cyclic:
    k = len(y)
    dlt = y.copy()
    for _ in range(order):
      dlt = np.roll(dlt, -1) - dlt
    return l1 * np.abs(dlt).sum() + l2 * (dlt ** 2).sum()
  dlt = y
  for _ in range(order):
    dlt = np.diff(dlt)
  return l1 * np.abs(dlt).sum() + l2 * (dlt ** 2).sum()


# ------------------------------------------------------------------- binding
def impl_lattice(kind, sizes, l1, l2, K, via="object"):
  tf, tfl = bind.bind()
  from tensorflow_lattice.python import lattice_layer
  if via == "layer":
    # the tuple spelling of the layer argument, read back through layer.losses
    units = K.shape[1]
    layer = tfl.layers.Lattice(lattice_sizes=list(sizes), units=units, kernel_regularizer=(kind, l1, l2))
    layer.build((None, len(sizes)) if units == 1 else (None, units, len(sizes)))
    layer.kernel.assign(np.asarray(K, dtype=np.float32))
    return float(sum(float(x) for x in layer.losses))
  cls = lattice_layer.LaplacianRegularizer if kind == "laplacian" else lattice_layer.TorsionRegularizer
  reg = cls(lattice_sizes=list(sizes), l1=l1, l2=l2)
  return float(reg(tf.constant(np.asarray(K, dtype=np.float32))))


def impl_pwl(kind, l1, l2, cyclic, K, via="object"):
  tf, tfl = bind.bind()
  from tensorflow_lattice.python import pwl_calibration_layer as pl
  if via == "layer":
    rows, units = K.shape
    layer = tfl.layers.PWLCalibration(input_keypoints=np.arange(rows + (1 if cyclic else 0), dtype=np.float32),
                                      units=units, is_cyclic=cyclic, kernel_regularizer=(kind, l1, l2))
    layer.build((None, 1))
    layer.kernel.assign(np.asarray(K, dtype=np.float32))
    return float(sum(float(x) for x in layer.losses))
  cls = dict(laplacian=pl.LaplacianRegularizer, hessian=pl.HessianRegularizer,
             wrinkle=pl.WrinkleRegularizer)[kind]
  reg = cls(l1=l1, l2=l2, is_cyclic=cyclic)
  return float(reg(tf.constant(np.asarray(K, dtype=np.float32))))


def amounts(d):
  """(l1, l2) pairs: scalars, lists, zeros in some positions."""
  out = [(0.5, 0.0), (0.0, 2.0), (0.5, 2.0), (1.0, 1.0)]
  if d >= 1:
    lst1 = [0.5 * (k + 1) for k in range(d)]
    lst2 = [float(k % 2) * 3.0 + (1.0 if k == 0 else 0.0) for k in range(d)]
    zero_some = [0.0 if k == 0 else 1.5 for k in range(d)]
    out += [(lst1, 0.0), (0.0, lst2), (lst1, lst2), (zero_some, lst1)]
    if d >= 2:
      out += [([2.0] + [0.0] * (d - 1), [0.0] * (d - 1) + [1.0])]
      # every zero / non-zero pattern of the per-dimension amounts, l1 and l2 independently
      # (a zero in the first, a middle or the last dimension takes different branches)
      for m1 in itertools.product([0, 1], repeat=d):
        for m2 in itertools.product([0, 1], repeat=d):
          if not any(m1) and not any(m2):
            continue
          pair = ([m * 0.5 * (k + 1) for k, m in enumerate(m1)], [m * (1.0 + 0.5 * k) for k, m in enumerate(m2)])
          if pair not in out:
            out.append(pair)
  return out


def items(tier):
  out = []
  shapes = [[2], [3], [2, 2], [2, 3], [3, 2], [2, 3, 4], [3, 2, 2]]
  if tier != "quick":
    shapes += [[4], [3, 3], [2, 2, 2], [4, 3, 2], [2, 2, 2, 2]]
  for sizes in shapes:
    for kind in ("laplacian", "torsion"):
      for l1, l2 in amounts(len(sizes)):
        out.append(dict(fam="lattice", kind=kind, sizes=sizes, l1=l1, l2=l2))
  for rows in (2, 3, 4, 5, 6):
    for kind in ("laplacian", "hessian", "wrinkle"):
      if kind == "wrinkle" and rows < 3:
        continue
      for cyclic in (False, True):
        for l1, l2 in ((0.5, 0.0), (0.0, 2.0), (0.5, 2.0)):
          out.append(dict(fam="pwl", kind=kind, rows=rows, cyclic=cyclic, l1=l1, l2=l2))
        # the same regularizer reached through the layer: PWLCalibration(kernel_regularizer=(name, l1, l2))
        out.append(dict(fam="pwl", kind=kind, rows=rows, cyclic=cyclic, l1=0.5, l2=2.0, via="layer"))
  for sizes in ([2, 3], [3, 2, 2]):
    for kind in ("laplacian", "torsion"):
      for l1, l2 in amounts(len(sizes))[:6]:
        out.append(dict(fam="lattice", kind=kind, sizes=sizes, l1=l1, l2=l2, via="layer"))
  return out


def kernel_columns(n, tier):
  if n <= 9 or (tier != "quick" and n <= 10):
    return alpha.words(alpha.A3, n)
  cols = [np.zeros(n)]
  for i in range(n):
    e = np.zeros(n); e[i] = 1.0
    cols.append(e); cols.append(-2.0 * e)
  for i, j in itertools.combinations(range(n), 2):
    e = np.zeros(n); e[i] = 1.0; e[j] = 1.0
    cols.append(e)
    e2 = np.zeros(n); e2[i] = 1.0; e2[j] = -1.0
    cols.append(e2)
  cols.append(np.arange(n, dtype=np.float64))
  cols.append((np.arange(n) ** 2 % 7).astype(np.float64))
  return np.array(cols).T


def evaluate(item, K):
  if item["fam"] == "lattice":
    impl = impl_lattice(item["kind"], item["sizes"], item["l1"], item["l2"], K, item.get("via", "object"))
    f = ref_lattice_laplacian if item["kind"] == "laplacian" else ref_lattice_torsion
    ref = sum(f(K[:, u], item["sizes"], item["l1"], item["l2"]) for u in range(K.shape[1]))
  else:
    impl = impl_pwl(item["kind"], item["l1"], item["l2"], item["cyclic"], K, item.get("via", "object"))
    ref = sum(ref_pwl(item["kind"], K[:, u], item["l1"], item["l2"], item["cyclic"])
              for u in range(K.shape[1]))
  return impl, ref


def differs(impl, ref):
  return (not np.isfinite(impl)) or abs(impl - ref) > RTOL * max(1.0, abs(ref))


def replay(case):
  item = case["item"]
  K = np.asarray(case["kernel"], dtype=np.float64)
  if K.ndim == 1:
    K = K[:, None]
  if case.get("clause") == "linearity":
    a = dict(item, l1=item["l1"], l2=0.0)
    b = dict(item, l1=0.0, l2=item["l2"])
    ia = evaluate(a, K)[0] if _nz(item["l1"]) else 0.0
    ib = evaluate(b, K)[0] if _nz(item["l2"]) else 0.0
    it = evaluate(item, K)[0]
    if differs(it, ia + ib):
      return "R(l1,l2)=%.6g but R(l1,0)+R(0,l2)=%.6g" % (it, ia + ib)
    return None
  impl, ref = evaluate(item, K)
  if differs(impl, ref):
    return "regularizer returned %.6g, documented sum is %.6g for kernel %s" % (
        impl, ref, K.T.tolist() if K.size <= 40 else "(%d x %d)" % K.shape)
  if impl < -1e-6:
    return "negative penalty %.6g" % impl
  return None


def _nz(a):
  return any(a) if isinstance(a, (list, tuple)) else bool(a)


def narrow(item, K):
  """Bisects a mismatching block down to a single column when possible."""
  while K.shape[1] > 1:
    h = K.shape[1] // 2
    a, b = K[:, :h], K[:, h:]
    ia, ra = evaluate(item, a)
    if differs(ia, ra):
      K = a
      continue
    ib, rb = evaluate(item, b)
    if differs(ib, rb):
      K = b
      continue
    break
  return K


def work(ctx, item):
  n = rl.nvert(item["sizes"]) if item["fam"] == "lattice" else item["rows"]
  K = kernel_columns(n, ctx.tier)
  N = K.shape[1]
  sig = dict(fam=item["fam"], kind=item["kind"],
             amounts=("list" if isinstance(item["l1"], list) or isinstance(item["l2"], list) else "scalar"))
  if item["fam"] == "pwl":
    sig["cyclic"] = int(item["cyclic"])
  sig["via"] = item.get("via", "object")
  total, nontriv = 0, 0
  # single columns (units=1) for small spaces, blocks (units>1) always
  blocks = []
  if N <= 243:
    blocks += [K[:, c:c + 1] for c in range(N)]
  for width in (2, 3):
    blocks += [K[:, c:c + width] for c in range(0, min(N, 60), width)]
  blocks += [K[:, s:s + 243] for s in range(0, N, 243)]
  for Kb in blocks:
    impl, ref = evaluate(item, Kb)
    total += Kb.shape[1]
    nontriv += int(ref != 0)
    if differs(impl, ref) or impl < -1e-6:
      Ks = narrow(item, Kb)
      case = dict(item=item, kernel=Ks.tolist())
      ctx.violation(dict(sig, clause="documented-sum", units1=int(Ks.shape[1] == 1)), case,
                    replay(case) or "block mismatch impl=%.6g ref=%.6g" % (impl, ref))
      break
  # linearity in (l1, l2)
  for c in range(0, N, max(1, N // 40)):
    case = dict(item=item, kernel=K[:, c].tolist(), clause="linearity")
    msg = replay(case)
    total += 1
    if msg:
      ctx.violation(dict(sig, clause="linearity"), case, msg)
      break
  # vanishing clauses on structured kernels
  van = []
  if item["fam"] == "lattice":
    sizes = item["sizes"]
    if item["kind"] == "laplacian":
      van = [np.full(n, 3.5), np.full(n, -2.0)]
    else:
      # additively separable kernels: sum_d g_d(i_d)
      grids = np.meshgrid(*[np.arange(s) for s in sizes], indexing="ij")
      sep = sum(((k + 2) * g ** 2 - g) for k, g in enumerate(grids)).astype(np.float64).reshape(-1)
      van = [sep, np.full(n, 1.0)]
  elif not item["cyclic"]:
    idx = np.arange(n, dtype=np.float64)
    def kernel_of(y):
      return np.concatenate([[y[0]], np.diff(y)])
    if item["kind"] == "laplacian":
      van = [kernel_of(np.full(n, 2.5))]
    elif item["kind"] == "hessian":
      van = [kernel_of(3.0 * idx - 1.0), kernel_of(np.full(n, 2.0))]
    else:
      van = [kernel_of(0.5 * idx ** 2 - 2.0 * idx + 1.0), kernel_of(3.0 * idx)]
  else:
    van = [np.concatenate([[2.5], np.zeros(n - 1)])]  # constant cyclic function
  for v in van:
    impl = evaluate(item, v[:, None])[0]
    total += 1
    if abs(impl) > 1e-3:
      ctx.violation(dict(sig, clause="vanishing"), dict(item=item, kernel=v.tolist()),
                    "penalty %.6g on a kernel where it must vanish: %s" % (impl, v.tolist()))
  ctx.add(evaluations=total, nontrivial=nontriv, traces=total)
  ctx.tab("items", "%s/%s" % (item["fam"], item["kind"]))
  ctx.tab("kernels", "enumerated_columns", N)
  ctx.sample(dict(item=item, columns=N), limit=4)


def run(ctx):
  its = alpha.rotate(items(ctx.tier), ctx.seed)
  ctx.rule = (
      "Lattice Laplacian/torsion: shapes (incl. rank 3 with unequal sizes) x scalar and "
      "per-dimension l1/l2 (with zeros) x ALL words of {-1,0,1}^n for n<=9 (one-hot/pair kernels "
      "above), as single columns and as multi-unit blocks (per-unit additivity); PWL "
      "Laplacian/Hessian/wrinkle: rows 2..6 x cyclic x amounts x ALL words; linearity in (l1,l2); "
      "vanishing clauses. Non-trivial = block/column with a non-zero documented penalty.")
  ctx.assumptions += ["float32; relative tolerance 2e-4"]
  pool.pmap(ctx, "vt.checks.c13", "work", its)
