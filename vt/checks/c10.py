"""C10 - Freshly built layers already satisfy their monotonicity and bound constraints."""
import itertools

import numpy as np

from vt.core import alpha, bind, pool
from vt.checks import c07
from vt.ref import lattice as rl

ID = "C10"
LEVEL = "exploration"
BOUNDS = [(None, None), (0.0, 1.0), (-3.0, -1.0), (2.0, None), (-2.0, None), (None, 3.0), (None, -0.5)]


def default_init(lo, hi):
  """Initialisation range for Lattice: the given bounds; a missing bound is replaced by 0
  (lower) / 1 (upper), or by a unit-length range next to the given bound when [0,1] would
  not reach it (so that the range is never empty)."""
  if lo is not None:
    imin = lo
  elif hi is not None:
    imin = 0.0 if hi > 0.0 else hi - 1.0
  else:
    imin = 0.0
  if hi is not None:
    imax = hi
  elif lo is not None:
    imax = 1.0 if lo < 1.0 else lo + 1.0
  else:
    imax = 1.0
  return imin, imax


def lattice_items(tier, seed):
  quick = tier == "quick"
  shapes = [[2], [3], [4], [2, 2], [2, 3], [3, 2], [3, 3], [4, 3], [2, 2, 2], [3, 2, 4]]
  if not quick:
    shapes += [[5], [3, 4], [4, 4], [2, 3, 3], [3, 3, 3]]
  K = 6 if quick else 40
  out = []
  for sizes in shapes:
    d = len(sizes)
    for units in (1, 2):
      for shape_cfg in itertools.product([0, 1, 2, 3], repeat=d):  # 0 free, 1 mono, 2 valley, 3 peak
        if any(c >= 2 and sizes[k] < 3 for k, c in enumerate(shape_cfg)):
          continue
        if quick and d == 3 and sum(1 for c in shape_cfg if c >= 2) > 1:
          continue
        mono = [1 if c == 1 else 0 for c in shape_cfg]
        uni = [1 if c == 2 else -1 if c == 3 else 0 for c in shape_cfg]
        for bi, (lo, hi) in enumerate(BOUNDS):
          if quick and d >= 2 and units == 2 and bi not in (0, 1, 3):
            continue
          for init in ("linear_initializer", "random_monotonic_initializer",
                       "random_uniform_or_linear_initializer"):
            seeds = [0]
            if init == "random_monotonic_initializer":
              seeds = [seed * K + s for s in range(K if (d <= 2 and units == 1) else 2)]
            for s in seeds:
              out.append(dict(kind="lattice", sizes=sizes, units=units, mono=mono, uni=uni, lo=lo,
                              hi=hi, init=init, seed=s, ju=None))
    # joint unimodalities on the free dims of size >= 3
    free3 = [k for k in range(d) if sizes[k] >= 3]
    if free3:
      for direction in ("valley", "peak"):
        for dims in ([free3[0]], free3[:2]):
          if len(dims) == 2 and len(free3) < 2:
            continue
          for init in ("linear_initializer", "random_uniform_or_linear_initializer"):
            out.append(dict(kind="lattice", sizes=sizes, units=1, mono=[0] * d, uni=[0] * d, lo=0.0,
                            hi=1.0, init=init, seed=0, ju=[[list(dims), direction]]))
  # high-rank lattices (internal code paths switch at rank 7/8): a few shape assignments only
  for sizes in ([2] * 8, [2] * 9, [2, 2, 2, 2, 2, 2, 2, 3]):
    d = len(sizes)
    for mono in ([1] * d, [1, 0] * (d // 2) + [1] * (d % 2), [0] * (d - 1) + [1], [1] + [0] * (d - 1)):
      for lo, hi in ((None, None), (0.0, 16.0), (10.0, 30.0)):
        for init in ("linear_initializer", "random_monotonic_initializer"):
          out.append(dict(kind="lattice", sizes=sizes, units=1, mono=list(mono), uni=[0] * d, lo=lo, hi=hi,
                          init=init, seed=seed, ju=None))
  # explicit init_min / init_max through create_kernel_initializer
  for sizes in ([2, 2], [3, 2]):
    for imin, imax in ((-1.0, 4.0), (0.25, 0.5)):
      out.append(dict(kind="lattice-explicit", sizes=sizes, mono=[1, 0], imin=imin, imax=imax))
  return out


def lattice_case(item, ctx=None):
  tf, tfl = bind.bind()
  sizes, units = item["sizes"], item.get("units", 1)
  d = len(sizes)
  n = rl.nvert(sizes)
  msgs = []
  if item["kind"] == "lattice-explicit":
    from tensorflow_lattice.python import lattice_layer
    ini = lattice_layer.create_kernel_initializer(
        "linear_initializer", sizes, item["mono"], None, None, None, None,
        init_min=item["imin"], init_max=item["imax"])
    k = np.asarray(ini((n, 1), dtype=tf.float32), dtype=np.float64)[:, 0]
    if abs(k.min() - item["imin"]) > 1e-5 or abs(k.max() - item["imax"]) > 1e-5:
      msgs.append("explicit init range [%s,%s] not met: kernel min %.6g max %.6g" %
                  (item["imin"], item["imax"], k.min(), k.max()))
    if ctx is not None:
      ctx.add(evaluations=1, nontrivial=1, traces=1)
    return "; ".join(msgs) or None
  mono, uni, lo, hi = item["mono"], item["uni"], item["lo"], item["hi"]
  tf.random.set_seed(item["seed"])
  np.random.seed(item["seed"])
  kw = {}
  if item["ju"]:
    kw["joint_unimodalities"] = [(tuple(a), b) for a, b in item["ju"]]
  spell = (sum(sizes) + units + item["seed"]) % 2 == 1   # alternate int / string spellings
  mono_arg = [{1: "increasing", 0: "none"}[m] for m in mono] if spell else mono
  uni_arg = [{1: "valley", -1: "peak", 0: "none"}[u] for u in uni] if spell else uni
  # "nothing configured" is spelled both as a list of zeros and as the default None
  if not any(mono) and not spell:
    mono_arg = None
  if not any(uni) and spell:
    uni_arg = None
  layer = tfl.layers.Lattice(lattice_sizes=sizes, units=units, monotonicities=mono_arg,
                             unimodalities=uni_arg, output_min=lo, output_max=hi,
                             kernel_initializer=item["init"], **kw)
  layer.build((None, d) if units == 1 else (None, units, d))
  K = np.asarray(layer.kernel.numpy(), dtype=np.float64)
  imin, imax = default_init(lo, hi)
  tol = 1e-5 * max(1.0, abs(imin), abs(imax))
  init = item["init"]
  ju_all = bool(item["ju"]) and set(item["ju"][0][0]) == set(range(d))
  if init == "random_uniform_or_linear_initializer":
    init = "random_uniform" if ju_all else "linear_initializer"
  if not np.all(np.isfinite(K)):
    return "non-finite initial kernel"
  for u in range(units):
    w = K[:, u].reshape(sizes)
    if init == "linear_initializer":
      # joint unimodalities are initialised like ordinary unimodalities
      eff_uni = list(uni)
      for dims, direction in item["ju"] or []:
        for q in dims:
          eff_uni[q] = 1 if direction == "valley" else -1
      cons = [k for k in range(d) if mono[k] or eff_uni[k]]
      eff_mono = list(mono) if cons else [1] * d
      ncons = len(cons) if cons else d
      r = (imax - imin) / ncons
      one_d = []
      for k in range(d):
        s = sizes[k]
        if eff_mono[k]:
          one_d.append(np.linspace(0.0, r, s))
        elif eff_uni[k]:
          half = (s + 1) // 2
          dec = np.linspace(r, 0.0, half)
          inc = np.linspace(0.0, r, half)
          v = np.concatenate([dec, inc[s % 2:]])
          one_d.append(v if eff_uni[k] == 1 else r - v if False else np.concatenate([inc, dec[s % 2:]]))
        else:
          one_d.append(np.zeros(s))
      ref = imin + sum(np.reshape(v, [len(v) if q == k else 1 for q in range(d)])
                       for k, v in enumerate(one_d))
      if np.abs(w - ref).max() > tol:
        msgs.append("linear initializer differs from the documented linear/valley/peak/constant "
                    "shape by %.6g: kernel %s, expected %s" %
                    (np.abs(w - ref).max(), np.round(w.reshape(-1), 5).tolist(),
                     np.round(ref.reshape(-1), 5).tolist()))
      if abs(w.min() - imin) > tol or abs(w.max() - imax) > tol:
        msgs.append("linear initializer range [%.6g, %.6g] != initialisation range [%s, %s]" %
                    (w.min(), w.max(), imin, imax))
    elif init == "random_monotonic_initializer":
      for k in range(d):
        if np.diff(w, axis=k).min() < -1e-7:
          msgs.append("random monotonic initializer decreases along dim %d (seed %d)" % (k, item["seed"]))
      if w.min() < imin - tol or w.max() > imax + tol:
        msgs.append("random monotonic initializer outside [%s,%s]" % (imin, imax))
    # shape constraints satisfied by the initial kernel (monotone, unimodal) and bounds
    fams = rl.constraint_matrix(sizes, monotonicities=mono, unimodalities=uni)
    if init != "random_uniform":
      for fam, (A, labels) in fams.items():
        if fam[0] == "unimodal" and init == "random_monotonic_initializer":
          continue  # a monotone random start cannot be unimodal; only monotonicity/bounds are promised
        sl = A @ K[:, u]
        if sl.min() < -tol:
          msgs.append("initial kernel violates %s at %s (slack %.6g)" % (fam, labels[int(sl.argmin())], sl.min()))
    if lo is not None and K[:, u].min() < lo - tol:
      msgs.append("initial kernel below output_min")
    if hi is not None and K[:, u].max() > hi + tol:
      msgs.append("initial kernel above output_max")
  # own assertion, and the constraint is a no-op for monotonicity/bound-only configurations
  if not msgs and init != "random_uniform" and not (init == "random_monotonic_initializer" and any(uni)):
    try:
      layer.assert_constraints(eps=1e-5)
    except Exception as e:  # pylint: disable=broad-except
      msgs.append("assert_constraints() fails on the fresh layer: %s" % str(e)[:200])
  if not msgs and not any(uni) and not item["ju"]:
    out = np.asarray(layer.kernel.constraint(layer.kernel), dtype=np.float64)
    if np.abs(out - K).max() > tol:
      msgs.append("weight constraint moves the initial kernel by %.6g" % np.abs(out - K).max())
  if ctx is not None:
    ctx.add(evaluations=units, nontrivial=units if (any(mono) or any(uni) or lo is not None or hi is not None) else 0,
            traces=units)
    ctx.tab("lattice_init", init)
  return "; ".join(msgs[:3]) or None


def pwl_items(tier):
  out = []
  for kp in ([0.0, 1.0], [0.0, 1.0, 3.0], [0.0, 0.1, 1.0, 4.0], [-2.0, 0.0, 0.5, 2.0, 10.0]):
    for units in (1, 2):
      for mono in (0, 1, -1):
        for lo, hi in BOUNDS:
          for init in ("equal_heights", "equal_slopes"):
            for clamps in ((False, False), (True, True)):
              if clamps[0] and (mono == 0 or lo is None or hi is None):
                continue
              out.append(dict(kind="pwl", kp=kp, units=units, mono=mono, lo=lo, hi=hi, init=init,
                              clamp=clamps[0]))
  return out


def pwl_case(item, ctx=None):
  tf, tfl = bind.bind()
  kp = np.array(item["kp"])
  lo, hi, mono = item["lo"], item["hi"], item["mono"]
  layer = tfl.layers.PWLCalibration(
      input_keypoints=kp.astype(np.float32), units=item["units"], monotonicity=mono, output_min=lo,
      output_max=hi, kernel_initializer=item["init"], clamp_min=item["clamp"],
      clamp_max=item["clamp"], impute_missing=True, missing_input_value=-99.0)
  layer.build((None, 1))
  K = np.asarray(layer.kernel.numpy(), dtype=np.float64)
  # documented initialisation bounds: the configured bounds; a missing bound defaults to the
  # other one (both missing: 0)
  imin = lo if lo is not None else (hi if hi is not None else 0.0)
  imax = hi if hi is not None else (lo if lo is not None else 0.0)
  tol = 1e-5 * max(1.0, abs(imin), abs(imax))
  msgs = []
  n = len(kp)
  for u in range(item["units"]):
    y = np.cumsum(K[:, u])
    start, end = (imax, imin) if mono == -1 else (imin, imax)
    if abs(y[0] - start) > tol or abs(y[-1] - end) > tol:
      msgs.append("initial function runs from %.6g to %.6g, expected %s to %s" % (y[0], y[-1], start, end))
    h = K[1:, u]
    if item["init"] == "equal_heights":
      if np.abs(h - h.mean()).max() > tol:
        msgs.append("equal_heights initializer: heights %s" % h.tolist())
    else:
      sl = h / (kp[1:] - kp[:-1])
      if np.abs(sl - sl.mean()).max() > tol:
        msgs.append("equal_slopes initializer: slopes %s" % sl.tolist())
    if mono and (h * mono).min() < -1e-7:
      msgs.append("initial heights have the wrong sign for monotonicity %d" % mono)
  if not msgs:
    try:
      layer.assert_constraints(eps=1e-5)
    except Exception as e:  # pylint: disable=broad-except
      msgs.append("assert_constraints() fails on the fresh layer: %s" % str(e)[:200])
  if not msgs:
    out = np.asarray(layer.kernel.constraint(layer.kernel), dtype=np.float64)
    if np.abs(out - K).max() > tol:
      msgs.append("weight constraint moves the initial kernel by %.6g" % np.abs(out - K).max())
    mo = np.asarray(layer.missing_output.numpy(), dtype=np.float64)
    if (lo is not None and mo.min() < lo - tol) or (hi is not None and mo.max() > hi + tol):
      msgs.append("initial missing output %s outside the bounds" % mo.tolist())
  if ctx is not None:
    ctx.add(evaluations=item["units"], nontrivial=item["units"] if (mono or lo is not None or hi is not None) else 0,
            traces=item["units"])
    ctx.tab("pwl_init", item["init"])
  return "; ".join(msgs[:3]) or None


def kfl_items(tier, seed):
  K = 4 if tier == "quick" else 30
  out = []
  for L in (2, 3):
    for dims in (1, 2, 3):
      for units in (1, 2):
        for terms in (1, 2, 3):
          for mono in itertools.product([0, 1], repeat=dims):
            for bname in c07.BOUNDS:
              for s in range(K):
                if tier == "quick" and dims == 3 and s > 0:
                  continue
                out.append(dict(kind="kfl", L=L, dims=dims, units=units, terms=terms, mono=list(mono),
                                bounds=bname, seed=seed * K + s, clip=True))
  return out


def kfl_case(item, ctx=None):
  tf, tfl = bind.bind()
  from vt.ref import kfl as rk
  lo, hi = c07.BOUNDS[item["bounds"]]
  tf.random.set_seed(item["seed"])
  layer = tfl.layers.KroneckerFactoredLattice(
      lattice_sizes=item["L"], units=item["units"], num_terms=item["terms"],
      monotonicities=item["mono"], output_min=lo, output_max=hi)
  d, U = item["dims"], item["units"]
  layer.build(tf.TensorShape((None, d) if U == 1 else (None, U, d)))
  X, pts = rk.grid(item["L"], d, outside=True)
  out = c07.evaluate(layer, item, U, X)
  if U == 1:
    out = out.reshape(-1, 1)
  res = c07.judge_outputs(item, out, X, pts)
  msgs = ["fresh KFL layer (seed %d): %s" % (item["seed"], m) for _, _, m in res]
  if not msgs:
    try:
      layer.assert_constraints(eps=1e-4)
    except Exception as e:  # pylint: disable=broad-except
      msgs.append("assert_constraints() fails on the fresh KFL layer: %s" % str(e)[:200])
  if not msgs and (any(item["mono"]) or lo is not None or hi is not None):
    k0 = layer.kernel.numpy()
    k1 = np.asarray(layer.kernel.constraint(layer.kernel))
    if np.abs(k1 - k0).max() > 1e-5:
      msgs.append("kernel constraint moves the initial KFL kernel by %.6g" % np.abs(k1 - k0).max())
    s0 = layer.scale.numpy()
    if layer.scale.constraint is not None:
      s1 = np.asarray(layer.scale.constraint(layer.scale))
      if np.abs(s1 - s0).max() > 1e-6:
        msgs.append("scale constraint moves the initial scale")
  if ctx is not None:
    ctx.add(evaluations=U, nontrivial=U if (any(item["mono"]) or lo is not None or hi is not None) else 0, traces=U)
    ctx.tab("kfl_init", item["bounds"])
  return "; ".join(msgs[:3]) or None


def cat_items(tier, seed):
  K = 6 if tier == "quick" else 40
  out = []
  for nb in (2, 3, 4):
    for units in (1, 2):
      for lo, hi in ((None, None), (0.0, 1.0), (-3.0, -1.0), (2.0, None), (None, -0.5)):
        for init in ("uniform", "constant"):
          for pairs in ([], [[0, 1]], [[0, 1], [1, nb - 1]] if nb >= 3 else [[1, 0]]):
            for s in range(K if init == "uniform" else 1):
              out.append(dict(kind="cat", nb=nb, units=units, lo=lo, hi=hi, init=init, pairs=pairs,
                              seed=seed * K + s))
  return out


def cat_case(item, ctx=None):
  tf, tfl = bind.bind()
  tf.random.set_seed(item["seed"])
  lo, hi = item["lo"], item["hi"]
  layer = tfl.layers.CategoricalCalibration(
      num_buckets=item["nb"], units=item["units"], output_min=lo, output_max=hi,
      monotonicities=[tuple(p) for p in item["pairs"]] or None, kernel_initializer=item["init"])
  layer.build((None, 1))
  K = np.asarray(layer.kernel.numpy(), dtype=np.float64)
  msgs = []
  if lo is not None and K.min() < lo - 1e-6:
    msgs.append("initial categorical values below output_min (%s)" % K.min())
  if hi is not None and K.max() > hi + 1e-6:
    msgs.append("initial categorical values above output_max (%s)" % K.max())
  for i, j in item["pairs"]:
    if (K[j] - K[i]).min() < -1e-6:
      msgs.append("initial categorical values violate ordering pair (%d,%d): %s (seed %d)" %
                  (i, j, K.T.tolist(), item["seed"]))
      break
  if ctx is not None:
    ctx.add(evaluations=item["units"], nontrivial=item["units"] if (item["pairs"] or lo is not None or hi is not None) else 0,
            traces=item["units"])
    ctx.tab("categorical_init", "%s_pairs%d" % (item["init"], len(item["pairs"])))
  return "; ".join(msgs) or None


def replay(case):
  return _dispatch(case, None)


def _dispatch(item, ctx):
  k = item["kind"]
  if k.startswith("lattice"):
    return lattice_case(item, ctx)
  if k == "pwl":
    return pwl_case(item, ctx)
  if k == "kfl":
    return kfl_case(item, ctx)
  return cat_case(item, ctx)


def work(ctx, item):
  msg = _dispatch(item, ctx)
  ctx.sample(item, limit=5)
  if msg:
    sig = dict(kind=item["kind"], init=str(item.get("init")))
    if item["kind"] == "lattice":
      sig.update(unimodal=int(any(item["uni"]) or bool(item["ju"])),
                 what=("assert" if "assert_constraints" in msg else "shape" if "initializer" in msg
                       else "constraint-moves" if "moves" in msg else "violates"))
    if item["kind"] == "cat":
      sig.update(pairs=int(bool(item["pairs"])), what="ordering" if "ordering" in msg else "bounds")
    if item["kind"] == "pwl":
      sig.update(bounded=("none" if item["lo"] is None and item["hi"] is None else "one" if
                          item["lo"] is None or item["hi"] is None else "both"))
    ctx.violation(sig, item, msg)


def run(ctx):
  items = (lattice_items(ctx.tier, ctx.seed) + pwl_items(ctx.tier) + kfl_items(ctx.tier, ctx.seed) +
           cat_items(ctx.tier, ctx.seed))
  items = alpha.rotate(items, ctx.seed)
  ctx.rule = (
      "Lattice: shapes up to rank 3 / size 4 x units {1,2} x every per-dimension {free, monotone, "
      "valley, peak} assignment x 7 bound modes (one-sided, negative ranges) x 3 initializer ids x "
      "seed window [seed*K, seed*K+K) for the random initializer, joint unimodalities, explicit "
      "init_min/max; PWL: keypoint vectors x units x monotonicity x bounds x {equal_heights, "
      "equal_slopes} x clamps; KFL: sizes x dims x units x terms x monotonicity subsets x bounds x "
      "seeds; CategoricalCalibration {uniform, constant} x ordering pairs x bounds x seeds. Oracle: "
      "closed forms from the docstrings, reference inequalities, the layer's own assert_constraints, "
      "constraint no-op. Non-trivial = built unit with at least one constraint configured.")
  ctx.assumptions += ["seed window offset by VERIF_SEED", "float32 tolerance 1e-5"]
  pool.pmap(ctx, "vt.checks.c10", "work", items)
