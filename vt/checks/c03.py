"""C03 - Premade and composed models stay monotone and bounded after any training history.

E2: explicit-state BFS over real Keras models. State = all model weights; a
transition is one REAL optimizer step (new-style SGD small/huge lr, Adam, legacy
SGD with per-variable interleaving) on one of two fixed batches with one of three
losses, or a rebuild-from-config + set_weights. The invariant (pairwise
monotonicity on the full input grid, categorical orderings, output bounds incl.
missing values) is evaluated in every reached state.
"""
import itertools

import numpy as np

from vt.core import alpha, bind, explorer, pool

ID = "C03"
LEVEL = "model_checking"

CAT_PAIRS = [(0, 1), (1, 2)]
# a 4-category order in which 3 is reachable from 0 both directly and through 1 -> 2, the direct
# (redundant) pair listed first: exercises the topological ordering inside the projection
CAT_DIAMOND = [(0, 3), (0, 1), (1, 2), (2, 3)]
KP = {"a": [0.0, 1.0, 2.0], "b": [0.0, 0.5, 2.0], "u": [-1.0, 0.0, 1.0]}
MISSING_U = -5.0


def model_names(tier):
  base = [
      "linear-plain", "linear-bounds", "linear-outcalib",
      "lattice-hypercube", "lattice-simplex-bounds", "lattice-outcalib", "lattice-kfl", "lattice-kfl-bounds",
      "ens-explicit-avg", "ens-explicit-lincomb-bounds", "ens-explicit-lincomb-maxonly", "ens-random-shared",
      "ens-rtl", "ens-rtl-kfl-outcalib",
      "stack-lattice", "stack-linear",
      "linear-cat-diamond", "lattice-cat-diamond", "ens-explicit-lincomb-minonly",
      "ens-avg-bounds-free-lattice", "linear-bounds-positive", "ens-kfl-bounds-free-lattice",
  ]
  if tier != "quick":
    base += ["lattice-convex-clamp", "lattice-trust-dominance", "lattice-learned-keypoints",
             "ens-explicit-kfl", "ens-rtl-bounds-lincomb", "lattice-size3-bounds"]
  return base


def feature_configs(tfl, sizes=(3, 2, 2, 2), extra=None):
  """a increasing, b decreasing, u unconstrained with a default (missing) value,
  c categorical with monotonic pairs and a default bucket."""
  extra = extra or {}
  fa = dict(name="a", lattice_size=sizes[0], monotonicity="increasing",
            pwl_calibration_input_keypoints=KP["a"])
  fb = dict(name="b", lattice_size=sizes[1], monotonicity="decreasing",
            pwl_calibration_input_keypoints=KP["b"])
  fu = dict(name="u", lattice_size=sizes[2], pwl_calibration_input_keypoints=KP["u"],
            default_value=MISSING_U)
  fc = dict(name="c", lattice_size=sizes[3], num_buckets=4, monotonicity=[(0, 1), (1, 2)],
            default_value=-1)
  for k, v in extra.items():
    {"a": fa, "b": fb, "u": fu, "c": fc}[k].update(v)
  return [tfl.configs.FeatureConfig(**f) for f in (fa, fb, fu, fc)]


def build(name, seed=7):
  """Returns (model, meta) where meta has output bounds."""
  tf, tfl = bind.bind()
  import tf_keras as keras
  from tensorflow_lattice.python import premade_lib
  keras.utils.set_random_seed(seed)
  C = tfl.configs
  lo = hi = None
  pairs = CAT_PAIRS
  if name == "linear-cat-diamond":
    pairs = CAT_DIAMOND
    m = tfl.premade.CalibratedLinear(C.CalibratedLinearConfig(
        feature_configs=feature_configs(tfl, extra={"c": dict(monotonicity=list(CAT_DIAMOND))}),
        output_initialization=[-1.0, 1.0]))
  elif name == "lattice-cat-diamond":
    pairs = CAT_DIAMOND
    lo, hi = 0.0, 1.0
    m = tfl.premade.CalibratedLattice(C.CalibratedLatticeConfig(
        feature_configs=feature_configs(tfl, sizes=(2, 2, 2, 3), extra={"c": dict(monotonicity=list(CAT_DIAMOND))}),
        output_min=lo, output_max=hi, output_initialization=[0.0, 1.0]))
  elif name == "linear-plain":
    m = tfl.premade.CalibratedLinear(C.CalibratedLinearConfig(
        feature_configs=feature_configs(tfl), output_initialization=[-1.0, 1.0]))
  elif name == "linear-bounds":
    lo, hi = -1.0, 2.0
    m = tfl.premade.CalibratedLinear(C.CalibratedLinearConfig(
        feature_configs=feature_configs(tfl), output_min=lo, output_max=hi, output_initialization=[-1.0, 2.0]))
  elif name == "linear-bounds-positive":
    lo, hi = 1.0, 2.0  # a range that does not contain 0
    m = tfl.premade.CalibratedLinear(C.CalibratedLinearConfig(
        feature_configs=feature_configs(tfl), output_min=lo, output_max=hi, output_initialization=[1.0, 2.0]))
  elif name == "linear-outcalib":
    lo, hi = 0.0, 1.0
    m = tfl.premade.CalibratedLinear(C.CalibratedLinearConfig(
        feature_configs=feature_configs(tfl), output_min=lo, output_max=hi, output_calibration=True,
        output_calibration_num_keypoints=3, output_initialization=[0.0, 0.5, 1.0]))
  elif name == "lattice-hypercube":
    m = tfl.premade.CalibratedLattice(C.CalibratedLatticeConfig(
        feature_configs=feature_configs(tfl), output_initialization=[0.0, 1.0]))
  elif name == "lattice-simplex-bounds":
    lo, hi = 0.0, 1.0
    m = tfl.premade.CalibratedLattice(C.CalibratedLatticeConfig(
        feature_configs=feature_configs(tfl), interpolation="simplex", output_min=lo, output_max=hi,
        output_initialization=[0.0, 1.0]))
  elif name == "lattice-size3-bounds":
    lo, hi = -2.0, -1.0
    m = tfl.premade.CalibratedLattice(C.CalibratedLatticeConfig(
        feature_configs=feature_configs(tfl, sizes=(3, 3, 3, 3)), output_min=lo, output_max=hi,
        output_initialization=[-2.0, -1.0]))
  elif name == "lattice-outcalib":
    lo, hi = -1.0, 3.0
    m = tfl.premade.CalibratedLattice(C.CalibratedLatticeConfig(
        feature_configs=feature_configs(tfl), output_min=lo, output_max=hi, output_calibration=True,
        output_calibration_num_keypoints=3, output_initialization=[-1.0, 0.0, 3.0]))
  elif name in ("lattice-kfl", "lattice-kfl-bounds"):
    if name.endswith("bounds"):
      lo, hi = 0.0, 1.0
    m = tfl.premade.CalibratedLattice(C.CalibratedLatticeConfig(
        feature_configs=feature_configs(tfl, sizes=(2, 2, 2, 2)), parameterization="kronecker_factored",
        num_terms=2, output_min=lo, output_max=hi, output_initialization=[0.0, 1.0], random_seed=seed))
  elif name == "lattice-convex-clamp":
    lo, hi = 0.0, 1.0
    m = tfl.premade.CalibratedLattice(C.CalibratedLatticeConfig(
        feature_configs=feature_configs(tfl, extra={
            "a": dict(pwl_calibration_convexity="concave", pwl_calibration_clamp_min=True),
            "b": dict(pwl_calibration_clamp_max=True),
            "u": dict(pwl_calibration_always_monotonic=True)}),
        output_min=lo, output_max=hi, output_initialization=[0.0, 1.0]))
  elif name == "lattice-trust-dominance":
    fcs = feature_configs(tfl, sizes=(2, 2, 2, 2), extra={
        "u": dict(reflects_trust_in=[C.TrustConfig(feature_name="a", trust_type="edgeworth")]),
        "a": dict(dominates=[C.DominanceConfig(feature_name="b")])})
    m = tfl.premade.CalibratedLattice(C.CalibratedLatticeConfig(
        feature_configs=fcs, output_initialization=[0.0, 1.0]))
  elif name == "lattice-learned-keypoints":
    lo, hi = 0.0, 1.0
    m = tfl.premade.CalibratedLattice(C.CalibratedLatticeConfig(
        feature_configs=feature_configs(tfl, extra={
            "a": dict(pwl_calibration_input_keypoints_type="learned_interior"),
            "b": dict(pwl_calibration_input_keypoints_type="learned_interior")}),
        output_min=lo, output_max=hi, output_initialization=[0.0, 1.0]))
  elif name.startswith("ens-"):
    kw = dict(feature_configs=feature_configs(tfl, sizes=(2, 2, 2, 2)), num_lattices=3, lattice_rank=2,
              output_initialization=[0.0, 1.0], random_seed=seed)
    if name == "ens-kfl-bounds-free-lattice":
      # the same with Kronecker-factored lattices: bounds of a lattice without any monotonic input
      lo, hi = 0.0, 1.0
      pairs = []
      kw.update(feature_configs=feature_configs(tfl, sizes=(2, 2, 2, 2), extra={"c": dict(monotonicity=None)}),
                lattices=[["a", "b"], ["u", "c"], ["a", "c"]], output_min=lo, output_max=hi,
                parameterization="kronecker_factored", num_terms=2)
    elif name == "ens-avg-bounds-free-lattice":
      # one lattice sees only unconstrained features (categorical without ordering pairs): its
      # kernel has no shape constraint at all, only the output bounds
      lo, hi = 0.0, 1.0
      pairs = []
      kw.update(feature_configs=feature_configs(tfl, sizes=(2, 2, 2, 2), extra={"c": dict(monotonicity=None)}),
                lattices=[["a", "b"], ["u", "c"], ["a", "c"]], output_min=lo, output_max=hi)
    elif name == "ens-explicit-avg":
      kw.update(lattices=[["a", "b"], ["u", "c"], ["a", "c"]])
    elif name == "ens-explicit-lincomb-bounds":
      lo, hi = 0.0, 1.0
      kw.update(lattices=[["a", "b"], ["u", "c"], ["b", "c"]], use_linear_combination=True, output_min=lo,
                output_max=hi)
    elif name == "ens-explicit-lincomb-maxonly":
      hi = 1.0
      kw.update(lattices=[["a", "b"], ["u", "c"], ["a", "c"]], use_linear_combination=True, output_max=hi)
    elif name == "ens-explicit-lincomb-minonly":
      lo = 1.0
      kw.update(lattices=[["a", "b"], ["u", "c"], ["b", "c"]], use_linear_combination=True, output_min=lo,
                output_initialization=[1.0, 2.0])
    elif name == "ens-explicit-kfl":
      kw.update(lattices=[["a", "b"], ["u", "c"], ["a", "c"]], parameterization="kronecker_factored")
    elif name == "ens-random-shared":
      kw.update(lattices="random", separate_calibrators=False)
    elif name == "ens-rtl":
      kw.update(lattices="rtl_layer")
    elif name == "ens-rtl-bounds-lincomb":
      lo, hi = -1.0, 1.0
      kw.update(lattices="rtl_layer", use_linear_combination=True, output_min=lo, output_max=hi,
                separate_calibrators=False, output_initialization=[-1.0, 1.0])
    elif name == "ens-rtl-kfl-outcalib":
      lo, hi = 0.0, 2.0
      kw.update(lattices="rtl_layer", parameterization="kronecker_factored", output_calibration=True,
                output_calibration_num_keypoints=3, output_initialization=[0.0, 1.0, 2.0], output_min=lo,
                output_max=hi)
    mc = C.CalibratedLatticeEnsembleConfig(**kw)
    if mc.lattices == "random":
      premade_lib.set_random_lattice_ensemble(mc)
    m = tfl.premade.CalibratedLatticeEnsemble(mc)
  elif name in ("stack-lattice", "stack-linear"):
    ins = [keras.layers.Input(shape=(1,), name=n, dtype=tf.int32 if n == "c" else tf.float32) for n in "abuc"]
    comb = tfl.layers.ParallelCombination(single_output=True)
    rng = (0.0, 1.0)
    comb.append(tfl.layers.PWLCalibration(input_keypoints=KP["a"], output_min=rng[0], output_max=rng[1],
                                          monotonicity="increasing"))
    comb.append(tfl.layers.PWLCalibration(input_keypoints=KP["b"], output_min=rng[0], output_max=rng[1],
                                          monotonicity="decreasing"))
    comb.append(tfl.layers.PWLCalibration(input_keypoints=KP["u"], output_min=rng[0], output_max=rng[1],
                                          impute_missing=True, missing_input_value=MISSING_U))
    comb.append(tfl.layers.CategoricalCalibration(num_buckets=4, output_min=rng[0], output_max=rng[1],
                                                  monotonicities=[(0, 1), (1, 2)], default_input_value=-1))
    cal = comb([ins[0], ins[1], ins[2], ins[3]])
    if name == "stack-lattice":
      lo, hi = -1.0, 1.0
      out = tfl.layers.Lattice(lattice_sizes=[2, 2, 2, 2], monotonicities=[1, 1, 0, 1], output_min=lo,
                               output_max=hi)(cal)
    else:
      out = tfl.layers.Linear(num_input_dims=4, monotonicities=[1, 1, 0, 1], monotonic_dominances=[(0, 1)],
                              use_bias=True)(cal)
    m = keras.Model(inputs=ins, outputs=out)
  else:
    raise ValueError(name)
  return m, dict(lo=lo, hi=hi, pairs=pairs)


# ---------------------------------------------------------------------- grid
def axis_points(kp):
  pts = [kp[0] - 3.0]
  for i, k in enumerate(kp):
    pts.append(k)
    if i + 1 < len(kp):
      pts.append((k + kp[i + 1]) / 2.0)
  pts.append(kp[-1] + 3.0)
  return pts


def grid():
  A = axis_points(KP["a"]); B = axis_points(KP["b"]); U = axis_points(KP["u"]) + [MISSING_U]
  Cc = [0, 1, 2, 3, -1]
  X = np.array(list(itertools.product(A, B, U, Cc)), dtype=np.float64)
  return X, (len(A), len(B), len(U), len(Cc))


def feed(X):
  tf, _ = bind.bind()
  return [tf.constant(X[:, 0:1].astype(np.float32)), tf.constant(X[:, 1:2].astype(np.float32)),
          tf.constant(X[:, 2:3].astype(np.float32)), tf.constant(X[:, 3:4].astype(np.int32))]


def invariant_msg(out, shape, meta):
  """out: (G,) model outputs on the full grid."""
  if not np.all(np.isfinite(out)):
    return "non-finite model output"
  O = out.reshape(shape)
  tol = 1e-4 * max(1.0, float(np.abs(out).max()))
  msgs = []
  d = np.diff(O, axis=0)
  if d.min() < -tol:
    i = np.unravel_index(int(np.argmin(d)), d.shape)
    msgs.append("output decreases by %.6g when increasing feature 'a' is raised (grid index %s)" % (-d.min(), i))
  d = np.diff(O, axis=1)
  if d.max() > tol:
    i = np.unravel_index(int(np.argmax(d)), d.shape)
    msgs.append("output increases by %.6g when decreasing feature 'b' is raised (grid index %s)" % (d.max(), i))
  # categorical pairs (0,1),(1,2): buckets along axis 3 are [0,1,2,3,default(-1 -> last bucket 3)]
  for i, j in meta.get("pairs", CAT_PAIRS):
    dd = O[:, :, :, j] - O[:, :, :, i]
    if dd.min() < -tol:
      msgs.append("category %d scores above category %d by %.6g" % (i, j, -dd.min()))
  if meta["lo"] is not None and out.min() < meta["lo"] - tol:
    msgs.append("output %.6g below output_min %s" % (out.min(), meta["lo"]))
  if meta["hi"] is not None and out.max() > meta["hi"] + tol:
    msgs.append("output %.6g above output_max %s" % (out.max(), meta["hi"]))
  return "; ".join(msgs) or None


# ------------------------------------------------------------------- actions
def batches():
  b0 = np.array([[0.2, 0.1, -0.5, 0], [1.5, 1.9, 0.3, 2], [2.5, -1.0, MISSING_U, 1], [-1.0, 0.5, 0.9, -1],
                 [1.0, 0.5, 0.0, 3], [0.7, 2.5, MISSING_U, 0]], dtype=np.float64)
  b1 = np.array([[2.0, 0.0, 1.0, 2], [0.0, 2.0, -1.0, 1], [1.2, 0.3, MISSING_U, 3], [0.4, 1.1, 0.2, -1]],
                dtype=np.float64)
  return [b0, b1]


def actions(tier):
  acts = [("sgd", 0.1, "mse", 0), ("sgd", 1e3, "mse", 0), ("sgd", 10.0, "+sum", 0), ("sgd", 1e4, "-sum", 1),
          ("sgd", 0.1, "-sum", 1), ("adam", 1.0, "mse", 0), ("legacy-sgd", 10.0, "+sum", 0), ("rebuild",)]
  if tier != "quick":
    acts += [("sgd", 1e6, "+sum", 1), ("adam", 1.0, "-sum", 1), ("legacy-sgd", 1e3, "mse", 1),
             ("sgd", 10.0, "mse", 1)]
  return acts


class System(object):

  def __init__(self, name, seed=7):
    tf, tfl = bind.bind()
    self.name, self.seed = name, seed
    self.model, self.meta = build(name, seed)
    self.X, self.shape = grid()
    self.xin = feed(self.X)
    self.batches = [(feed(b), b) for b in batches()]
    self.shapes = [w.shape for w in self.model.get_weights()]

  def read(self):
    return tuple(tuple(np.round(w.astype(np.float64).reshape(-1), 6).tolist()) for w in self.model.get_weights())

  def restore(self, st):
    self.model.set_weights([np.array(w, dtype=np.float32).reshape(s) for w, s in zip(st, self.shapes)])

  def step(self, st, act):
    tf, tfl = bind.bind()
    import tf_keras as keras
    self.restore(st)
    if act[0] == "rebuild":
      m2, _ = build(self.name, self.seed)
      m2.set_weights(self.model.get_weights())
      self.model = m2
      return self.read()
    kind, lr, loss_name, bi = act
    xin, b = self.batches[bi]
    if kind == "sgd":
      opt = keras.optimizers.SGD(learning_rate=lr)
    elif kind == "adam":
      opt = keras.optimizers.Adam(learning_rate=lr)
    else:
      opt = keras.optimizers.legacy.SGD(learning_rate=lr)
    # labels that push against every constraint
    y = (-b[:, 0] + b[:, 1] + np.where(b[:, 3] == 0, 2.0, 0.0) - np.where(b[:, 3] == 2, 2.0, 0.0))[:, None]
    with tf.GradientTape() as tape:
      out = self.model(xin)
      if loss_name == "mse":
        loss = tf.reduce_mean(tf.square(out - tf.constant(y.astype(np.float32))))
      elif loss_name == "+sum":
        loss = tf.reduce_sum(out)
      else:
        loss = -tf.reduce_sum(out)
    tv = self.model.trainable_variables
    grads = tape.gradient(loss, tv)
    gv = [(tf.zeros_like(v) if g is None else g, v) for g, v in zip(grads, tv)]
    opt.apply_gradients(gv)
    return self.read()

  def invariant(self, st, hist):
    self.restore(st)
    out = np.asarray(self.model(self.xin), dtype=np.float64).reshape(-1)
    if not np.all(np.isfinite(out)):
      big = max(float(np.abs(np.asarray(w)).max()) if len(w) else 0.0 for w in st)
      if big > 1e8 or not np.isfinite(big):
        self.overflowed = getattr(self, "overflowed", 0) + 1
        return None  # float32 overflow of an unbounded model after huge steps: not a constraint matter
    msg = invariant_msg(out, self.shape, self.meta)
    if msg and "output_m" in msg:
      for l in self.model.layers:
        if (type(l).__name__ == "Linear" and getattr(l, "normalization_order", None)
            and not np.any(l.kernel.numpy())):
          msg += " [normalised linear weights all zero]"
          break
    return msg


def explore(ctx, name):
  sysm = System(name)
  acts = actions(ctx.tier)
  depth = 3
  init = sysm.read()
  res = explorer.bfs([(init, "constructed")], lambda st: acts, sysm.step, lambda st: st, sysm.invariant,
                     depth, max_states=20000, over_budget=ctx.over_budget)
  ctx.add(evaluations=res.transitions, nontrivial=res.states, states=res.states,
          transitions=res.transitions, traces=res.states)
  ctx.tab("models", name, res.states)
  ctx.tab("bfs", "states", res.states)
  ctx.tab("bfs", "transitions", res.transitions)
  ctx.tab("bfs", "max_depth", res.max_depth)
  ctx.tab("bfs", "states_skipped_float32_overflow", getattr(sysm, "overflowed", 0))
  if not res.exhausted:
    ctx.cap("BFS for %s stopped early" % name)
  # replay determinism on a FRESH model
  hs = [h for h in res.histories.values() if len(h) > 1][-3:]
  for h in hs:
    fresh = System(name)
    st = fresh.read()
    for act in h[1:]:
      st = fresh.step(st, act)
    if st not in res.histories:
      raise RuntimeError("C03 replay divergence for %s history %r" % (name, h))
    ctx.add(traces=1)
  for hist, st, msg in res.violations:
    acts_only = [list(a) for a in hist[1:]]
    what = ("bounds" if "output_m" in msg and "decreases" not in msg and "increases" not in msg else
            "monotone-a" if "'a'" in msg else "monotone-b" if "'b'" in msg else
            "categorical" if "category" in msg else "other")
    ctx.violation(dict(model=name, what=what, at_construction=int(len(acts_only) == 0),
                       lincomb_zero=int("weights all zero" in msg)),
                  dict(model=name, actions=acts_only), msg)
  ctx.sample(dict(model=name, example_history=[list(a) for a in (hs[-1][1:] if hs else [])],
                  weights=len(init)), limit=6)


def replay(case):
  sysm = System(case["model"])
  st = sysm.read()
  for act in case["actions"]:
    st = sysm.step(st, tuple(act))
  return sysm.invariant(st, None)


def work(ctx, name):
  explore(ctx, name)


def run(ctx):
  names = alpha.rotate(model_names(ctx.tier), ctx.seed)
  ctx.rule = (
      "22 (thorough 28) real models: CalibratedLinear {plain, bounds, output calibration}, "
      "CalibratedLattice {hypercube, simplex+bounds, output calibration, kronecker_factored +- bounds}, "
      "CalibratedLatticeEnsemble {explicit avg, explicit linear-combination+bounds, max-only and "
      "min-only linear-combination, random shared calibrators, rtl_layer, rtl+kfl+output calibration}, "
      "linear/lattice models whose categorical feature has a 4-bucket 'diamond' order with the redundant "
      "pair listed first, and two hand-assembled stacks; features: "
      "increasing, decreasing, unconstrained with missing value, categorical with ordering pairs and "
      "default bucket. BFS depth 3 over 8 (12) actions: new-style SGD lr {0.1,10,1e3,1e4}, Adam, "
      "legacy SGD, losses {MSE vs anti-monotone labels, +sum, -sum}, two batches with missing values, "
      "rebuild-from-config. Invariant in EVERY reached state incl. the constructed one: all ordered "
      "pairs along each constrained feature on the full grid (below range, keypoints, midpoints, "
      "above range, every bucket, missing), categorical orderings, output bounds. Non-trivial = "
      "distinct reached weight state.")
  ctx.assumptions += ["float32; tolerance 1e-4*max(1,|output|)", "depth 3; optimizers/losses/batches from a fixed menu",
                      "state = weights rounded to 6 decimals; fresh optimizer per step (no slot state)"]
  pool.pmap(ctx, "vt.checks.c03", "work", names, chunk=1)
