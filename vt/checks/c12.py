"""C12 - assert_constraints accepts exactly the weights that meet the covered constraints.

One assertion call per weight tensor (an assertion is all-or-nothing, so no packing).
"""
import itertools

import numpy as np

from vt.core import alpha, bind, pool
from vt.checks import c06
from vt.ref import kfl as rk
from vt.ref import lattice as rl

ID = "C12"
LEVEL = "exploration"
EPSS = (1e-6, 1e-3)
MARGIN = 10.0


def raises(fn):
  """Returns (raised: bool, exception type name or None)."""
  tf, _ = bind.bind()
  try:
    fn()
    return False, None
  except tf.errors.InvalidArgumentError:
    return True, "InvalidArgumentError"
  except Exception as e:  # pylint: disable=broad-except
    return True, type(e).__name__


def verdict(slacks, eps):
  """slacks: dict name -> array of slacks (>=0 satisfied). Returns 'must-raise', 'must-pass' or None."""
  worst = min(float(np.min(v)) for v in slacks.values()) if slacks else 1.0
  if worst < -MARGIN * eps:
    return "must-raise"
  if worst >= MARGIN * eps:
    return "must-pass"
  return None


# ------------------------------------------------------------------- Lattice
def lattice_cfgs(tier="quick"):
  out = []
  def add(sizes, **kw):
    out.append(dict(kind="lattice", sizes=sizes, kw=kw))
  add([2], monotonicities=[1], output_min=-1.5, output_max=1.5)
  add([3], monotonicities=[1])
  add([2, 2], monotonicities=[1, 1])
  add([2, 2], monotonicities=[1, 0], output_min=-0.5)
  add([2, 2], monotonicities=[1, 0], output_min=0.0)
  add([2, 2], monotonicities=[0, 1], output_max=0.0)
  add([2, 2], monotonicities=[0, 0], output_max=0.5)
  add([2, 2], monotonicities=[1, 0], edgeworth_trusts=[(0, 1, 1)])
  add([2, 2], monotonicities=[1, 0], edgeworth_trusts=[(0, 1, -1)])
  add([2, 2], monotonicities=[1, 0], trapezoid_trusts=[(0, 1, 1)])
  add([2, 2], monotonicities=[0, 1], trapezoid_trusts=[(1, 0, -1)])
  add([2, 2], monotonicities=[1, 1], monotonic_dominances=[(0, 1)])
  add([2, 2], monotonicities=[1, 1], range_dominances=[(1, 0)])
  add([2, 2], monotonicities=[0, 0], joint_monotonicities=[(0, 1)])
  add([2, 3], monotonicities=[1, 1], edgeworth_trusts=[(0, 1, 1)])
  add([3, 2], monotonicities=[1, 0], trapezoid_trusts=[(0, 1, 1)], output_min=-1.5, output_max=1.5)
  add([2, 3], monotonicities=[1, 1], monotonic_dominances=[(1, 0)])
  add([3, 2], monotonicities=[1, 1], range_dominances=[(0, 1)])
  add([2, 3], monotonicities=[0, 0], joint_monotonicities=[(0, 1)])
  add([2, 2, 2], monotonicities=[1, 0, 1], edgeworth_trusts=[(0, 1, 1)], monotonic_dominances=[(0, 2)])
  add([3, 3], monotonicities=[1, 1], edgeworth_trusts=[(0, 1, 1)], trapezoid_trusts=[(0, 1, 1)])
  if tier != "quick":
    # every pairwise family on every ordered feature pair of unequal-size rank-3 lattices, both
    # trust directions, plus larger 2-d shapes
    for sizes in ([2, 2, 3], [3, 2, 2], [2, 3, 2]):
      for a, b in itertools.permutations(range(3), 2):
        mono = [0, 0, 0]; mono[a] = 1
        for d in (1, -1):
          add(sizes, monotonicities=list(mono), edgeworth_trusts=[(a, b, d)])
          add(sizes, monotonicities=list(mono), trapezoid_trusts=[(a, b, d)])
        mono2 = list(mono); mono2[b] = 1
        add(sizes, monotonicities=mono2, monotonic_dominances=[(a, b)])
        add(sizes, monotonicities=mono2, range_dominances=[(a, b)])
        add(sizes, monotonicities=[0, 0, 0], joint_monotonicities=[(a, b)])
    add([4, 3], monotonicities=[1, 1], edgeworth_trusts=[(1, 0, -1)], output_min=-1.5, output_max=1.5)
    add([3, 4], monotonicities=[1, 1], range_dominances=[(0, 1)])
    add([4, 4], monotonicities=[1, 0], trapezoid_trusts=[(0, 1, -1)])
    add([2, 2, 2, 2], monotonicities=[1, 1, 0, 0], edgeworth_trusts=[(0, 2, 1)], trapezoid_trusts=[(1, 3, -1)],
        monotonic_dominances=[(0, 1)])
  return out


def lattice_rows(sizes, kw):
  fam_kw = {k: v for k, v in kw.items() if k not in ("output_min", "output_max")}
  fams = rl.constraint_matrix(sizes, **fam_kw)
  rows, labels = [], []
  for fam, (A, lab) in fams.items():
    rows.append(A)
    labels += [(fam[0],) + tuple(l[1:]) for l in lab]
  A = np.concatenate(rows, axis=0) if rows else np.zeros((0, rl.nvert(sizes)))
  return A, labels


def lattice_case(cfg, ctx=None):
  tf, tfl = bind.bind()
  sizes, kw = cfg["sizes"], dict(cfg["kw"])
  n = rl.nvert(sizes)
  for k in ("edgeworth_trusts", "trapezoid_trusts", "monotonic_dominances", "range_dominances",
            "joint_monotonicities"):
    if k in kw:
      kw[k] = [tuple(t) for t in kw[k]]
  A, labels = lattice_rows(sizes, kw)
  lo, hi = kw.get("output_min"), kw.get("output_max")
  if n <= 6:
    W = alpha.words(alpha.A3, n)
  else:
    # directed set: strictly feasible base + one injected violation per inequality, both signs
    W = directed_set(A, n, lo, hi)
  msgs = []
  layers = {}
  def layer_for(units):
    if units not in layers:
      l = tfl.layers.Lattice(lattice_sizes=sizes, units=units, **kw)
      l.build((None, len(sizes)) if units == 1 else (None, units, len(sizes)))
      layers[units] = l
    return layers[units]
  only_row = np.zeros(A.shape[0] + 2, dtype=int)
  total = nontriv = 0
  feasible_col = None
  for c in range(W.shape[1]):
    w = W[:, c]
    sl = {"rows": A @ w} if A.shape[0] else {}
    if lo is not None:
      sl["lo"] = np.array([w.min() - lo])
    if hi is not None:
      sl["hi"] = np.array([hi - w.max()])
    for eps in EPSS:
      v = verdict(sl, eps)
      if v is None:
        continue
      l = layer_for(1)
      l.kernel.assign(w[:, None].astype(np.float32))
      r, et = raises(lambda: l.assert_constraints(eps=eps))
      total += 1
      if v == "must-raise":
        nontriv += 1
        viol = np.where(sl["rows"] < -MARGIN * eps)[0] if "rows" in sl else []
        if len(viol) == 1 and all(np.min(sl[k]) >= 0 for k in sl if k != "rows"):
          only_row[viol[0]] += 1
      if v == "must-pass" and feasible_col is None:
        feasible_col = c
      if (v == "must-raise") != r or (r and et != "InvalidArgumentError"):
        kind = "accepts-violation" if v == "must-raise" else "rejects-feasible"
        if r and et != "InvalidArgumentError":
          kind = "wrong-exception-" + str(et)
        worst = labels[int(np.argmin(sl["rows"]))] if "rows" in sl and np.min(sl["rows"]) < 0 else "bounds"
        msgs.append((kind, dict(cfg=cfg, kernel=w.tolist(), eps=eps, units=1),
                     "%s: kernel %s eps=%g most violated %s (slack %.4g)" %
                     (kind, w.tolist(), eps, worst, min(np.min(x) for x in sl.values()))))
        break
    if len(msgs) >= 3:
      break
  # multi-unit: [feasible | offender] and [offender | feasible]
  if feasible_col is not None and not msgs:
    wf = W[:, feasible_col]
    l2 = layer_for(2)
    for c in range(W.shape[1]):
      w = W[:, c]
      sl = {"rows": A @ w} if A.shape[0] else {}
      if lo is not None:
        sl["lo"] = np.array([w.min() - lo])
      if hi is not None:
        sl["hi"] = np.array([hi - w.max()])
      if verdict(sl, 1e-6) != "must-raise":
        continue
      for order in (0, 1):
        K = np.stack([wf, w] if order == 0 else [w, wf], axis=1)
        l2.kernel.assign(K.astype(np.float32))
        r, et = raises(lambda: l2.assert_constraints(eps=1e-6))
        total += 1
        if not r:
          msgs.append(("accepts-violation-multiunit", dict(cfg=cfg, kernel=K.tolist(), eps=1e-6, units=2),
                       "2-unit kernel with the offender in column %d is accepted: %s" % (1 - order if order else 1, K.T.tolist())))
          break
      if msgs:
        break
  if ctx is not None:
    ctx.add(evaluations=total, nontrivial=nontriv, traces=total)
    ctx.tab("lattice_cfgs", "%s_%s" % (sizes, "+".join(sorted(k for k in kw if k not in ("monotonicities",)))))
    missing = [str(labels[i]) for i in range(A.shape[0]) if only_row[i] == 0]
    ctx.tab("single_violation_witnesses", "inequalities_with_witness", int((only_row[:A.shape[0]] > 0).sum()))
    ctx.tab("single_violation_witnesses", "inequalities_without_witness", len(missing))
  return msgs


def directed_set(A, n, lo, hi):
  """Strictly feasible base kernel plus, per inequality, a move that violates it."""
  from vt.ref import projection as pj
  # strictly feasible base: project a ramp, then push inside along the mean of rows
  m = A.shape[0]
  # find w0 with A w0 >= 1 via Hildreth on shifted system: minimise ||w|| s.t. A w >= 1
  w0 = pj.project_active_set(A, np.zeros((n, 1)), b=np.ones(m))[:, 0] if m <= 10 else None
  if w0 is None:
    # iterative: start from zeros, Hildreth on A w >= 1 (affine): emulate by augmenting
    w0 = np.zeros(n)
    for _ in range(20000):
      s = A @ w0 - 1.0
      i = int(np.argmin(s))
      if s[i] >= -1e-9:
        break
      w0 = w0 - s[i] * A[i] / (A[i] @ A[i])
  w0 = w0 - w0.mean()
  scale = 1.0
  if lo is not None or hi is not None:
    bound = min(abs(x) for x in (lo, hi) if x is not None)
    scale = 0.5 * bound / max(1e-9, np.abs(w0).max())
  base = w0 * scale
  cols = [base]
  for i in range(m):
    a = A[i]
    s = a @ base
    for t in (s + 1.0 * scale, s + 5.0):
      cols.append(base - t * a / (a @ a))
  if lo is not None:
    for v in range(n):
      w = base.copy(); w[v] = lo - 1.0; cols.append(w)
  if hi is not None:
    for v in range(n):
      w = base.copy(); w[v] = hi + 1.0; cols.append(w)
  return np.array(cols).T


# --------------------------------------------------------------------- others
def simple_items(tier="quick"):
  out = []
  thorough = tier != "quick"
  for mono in (1, -1, 0):
    for lo, hi, cmin, cmax in ((None, None, False, False), (-1.5, 1.5, False, False),
                               (-1.0, None, True, False), (None, 1.0, False, True),
                               (-1.0, 1.0, True, True)):
      if (cmin or cmax) and mono == 0:
        continue
      for nk in ((2, 3, 4, 5) if thorough else (2, 3)):
        out.append(dict(kind="pwl", mono=mono, lo=lo, hi=hi, cmin=cmin, cmax=cmax, nk=nk))
        if nk == 3:
          # layer forms whose call() does not simply return the keypoint outputs: a missing-value
          # sentinel that is itself a keypoint, missing values marked by a tensor only, split outputs
          for variant in ("sentinel-on-keypoint", "tensor-only"):
            out.append(dict(kind="pwl", mono=mono, lo=lo, hi=hi, cmin=cmin, cmax=cmax, nk=nk, variant=variant))
  for lc in c06.linear_configs("quick"):
    if thorough and lc["n"] == 3 and not (lc["md"] or lc["rd"]):
      out.append(dict(kind="linear", lcfg=lc))
      continue
    if lc["n"] in (2, 3) and (lc["md"] or lc["rd"] or lc["norm"] or any(lc["mono"])):
      if lc["n"] == 3 and not (lc["md"] or lc["rd"]):
        continue
      out.append(dict(kind="linear", lcfg=lc))
  for cc in c06.cat_configs("quick"):
    if cc["nb"] <= (4 if thorough else 3) and (cc["pairs"] or cc["lo"] is not None or cc["hi"] is not None):
      out.append(dict(kind="cat", ccfg=cc))
  for L, dims, terms in (((2, 1, 1), (2, 2, 1), (3, 1, 1), (2, 1, 2), (3, 2, 1), (2, 2, 2), (2, 3, 1)) if thorough
                         else ((2, 1, 1), (2, 2, 1), (3, 1, 1), (2, 1, 2))):
    for mono in itertools.product([0, 1], repeat=dims):
      for bname in ("none", "min", "max", "both"):
        if not any(mono) and bname == "none":
          continue
        out.append(dict(kind="kfl", L=L, dims=dims, terms=terms, mono=list(mono), bounds=bname))
  out.append(dict(kind="rtl"))
  return out


def pwl_case(item, ctx=None):
  tf, tfl = bind.bind()
  nk, mono, lo, hi = item["nk"], item["mono"], item["lo"], item["hi"]
  kp = np.arange(nk, dtype=np.float32)
  variant = item.get("variant", "sentinel-outside")
  sentinel = {"sentinel-outside": -9.0, "sentinel-on-keypoint": float(kp[1]), "tensor-only": None}[variant]
  layer = tfl.layers.PWLCalibration(input_keypoints=kp, monotonicity=mono, output_min=lo,
                                    output_max=hi, clamp_min=item["cmin"], clamp_max=item["cmax"],
                                    impute_missing=True, missing_input_value=sentinel)
  layer.build((None, 1))
  W = alpha.words(alpha.A5, nk)
  msgs, total, nontriv = [], 0, 0
  for c in range(W.shape[1]):
    w = W[:, c]
    y = np.cumsum(w)
    for mo in (0.0, 3.0, -3.0):
      sl = {}
      if mono:
        sl["mono"] = np.diff(y) * mono
      if lo is not None:
        sl["lo"] = np.array([y.min() - lo, mo - lo])
      if hi is not None:
        sl["hi"] = np.array([hi - y.max(), hi - mo])
      clamp_bad = False
      if item["cmin"]:
        sl["cmin"] = np.array([-abs(y.min() - lo)]) if abs(y.min() - lo) > 0 else np.array([1.0])
      if item["cmax"]:
        sl["cmax"] = np.array([-abs(y.max() - hi)]) if abs(y.max() - hi) > 0 else np.array([1.0])
      if not sl:
        continue
      for eps in EPSS:
        v = verdict(sl, eps)
        if v is None:
          continue
        layer.kernel.assign(w[:, None].astype(np.float32))
        layer.missing_output.assign([[mo]])
        r, et = raises(lambda: layer.assert_constraints(eps=eps))
        total += 1
        nontriv += int(v == "must-raise")
        if (v == "must-raise") != r or (r and et != "InvalidArgumentError"):
          kind = "accepts-violation" if v == "must-raise" else "rejects-feasible"
          if r and et != "InvalidArgumentError":
            kind = "wrong-exception-" + str(et)
          bad = min(sl, key=lambda k: np.min(sl[k]))
          msgs.append((kind + "-" + bad.rstrip("0123456789"), dict(item=item, kernel=w.tolist(), missing_output=mo, eps=eps),
                       "%s: PWL keypoint outputs %s missing output %s eps=%g; most violated: %s" %
                       (kind, y.tolist(), mo, eps, bad)))
          break
      if msgs:
        break
    if msgs:
      break
  # multi-unit: a unit that misses a bound / clamp next to a feasible unit must still be rejected
  if not msgs:
    layer2 = tfl.layers.PWLCalibration(input_keypoints=kp, units=2, monotonicity=mono, output_min=lo,
                                       output_max=hi, clamp_min=item["cmin"], clamp_max=item["cmax"],
                                       split_outputs=(variant != "sentinel-outside"))
    layer2.build((None, 1))
    def slacks(w):
      y = np.cumsum(w)
      sl = {}
      if mono:
        sl["mono"] = np.diff(y) * mono
      # a clamped side sits exactly ON its bound: that is feasible (no margin is possible there)
      if lo is not None:
        sl["lo"] = np.array([1.0 if (item["cmin"] and y.min() == lo) else y.min() - lo])
      if hi is not None:
        sl["hi"] = np.array([1.0 if (item["cmax"] and y.max() == hi) else hi - y.max()])
      if item["cmin"]:
        sl["cmin"] = np.array([-abs(y.min() - lo)]) if abs(y.min() - lo) > 0 else np.array([1.0])
      if item["cmax"]:
        sl["cmax"] = np.array([-abs(y.max() - hi)]) if abs(y.max() - hi) > 0 else np.array([1.0])
      return sl
    cols = [W[:, c] for c in range(W.shape[1])]
    feas = [w for w in cols if slacks(w) and verdict(slacks(w), 1e-6) == "must-pass"][:3]
    offs = [w for w in cols if slacks(w) and verdict(slacks(w), 1e-6) == "must-raise"]
    for wf in feas:
      for wo in offs:
        for order in (0, 1):
          K = np.stack([wf, wo] if order == 0 else [wo, wf], axis=1)
          layer2.kernel.assign(K.astype(np.float32))
          r, et = raises(lambda: layer2.assert_constraints(eps=1e-6))
          total += 1
          if not r:
            bad = min(slacks(wo), key=lambda k: np.min(slacks(wo)[k]))
            msgs.append(("accepts-violation-multiunit-" + bad, dict(item=item, kernel=K.tolist(), eps=1e-6),
                         "2-unit PWL kernel accepted although unit %d violates %s: %s" % (1 - order if order == 0 else 0, bad, K.T.tolist())))
            break
        if msgs:
          break
      if msgs:
        break
  if ctx is not None:
    ctx.add(evaluations=total, nontrivial=nontriv, traces=total)
    ctx.tab("other_cfgs", "pwl")
  return msgs


def linear_case(item, ctx=None):
  tf, tfl = bind.bind()
  lc = item["lcfg"]
  n = lc["n"]
  kw = dict(monotonicities=list(lc["mono"]), normalization_order=lc["norm"])
  r_ = c06.ranges_for(lc)
  if lc["md"]:
    kw["monotonic_dominances"] = [tuple(p) for p in lc["md"]]
  if lc["rd"]:
    kw["range_dominances"] = [tuple(p) for p in lc["rd"]]
    kw["input_min"] = [a for a, _ in r_]
    kw["input_max"] = [b for _, b in r_]
  msgs, total, nontriv = [], 0, 0
  W = alpha.words(alpha.A5, n) * 0.5
  if lc["norm"]:
    nrm = np.linalg.norm(W, ord=lc["norm"], axis=0)
    Wn = W[:, nrm > 0] / nrm[nrm > 0]
    W = np.concatenate([Wn, W], axis=1)
  for units in (1, 2):
    layer = tfl.layers.Linear(num_input_dims=n, units=units, **kw)
    layer.build((None, n) if units == 1 else (None, units, n))
    feas = None
    for c in range(W.shape[1]):
      w = W[:, c]
      sl = {}
      mono = np.array(lc["mono"], dtype=np.float64)
      if any(lc["mono"]):
        sl["sign"] = (w * mono)[mono != 0]
      scal = np.array([(b - a) for a, b in r_])
      for d, wk in lc["md"]:
        sl["md%d%d" % (d, wk)] = np.array([w[d] - w[wk]])
      for d, wk in lc["rd"]:
        sd = scal[d] * (-1.0 if lc["mono"][d] == -1 else 1.0)
        sw = scal[wk] * (-1.0 if lc["mono"][wk] == -1 else 1.0)
        sl["rd%d%d" % (d, wk)] = np.array([sd * w[d] - sw * w[wk]])
      if lc["norm"]:
        nv = np.linalg.norm(w, ord=lc["norm"])
        if nv < 1e-12:
          pass  # numerically zero weights are allowed
        elif abs(nv - 1.0) < 1e-7:
          sl["norm"] = np.array([1.0])
        else:
          sl["norm"] = np.array([-abs(nv - 1.0)])
      if not sl:
        continue
      for eps in (1e-4, 1e-3):
        v = verdict(sl, eps)
        if v is None:
          continue
        if units == 1:
          K = w[:, None]
        else:
          if feas is None:
            continue
          K = np.stack([feas, w], axis=1)
        layer.kernel.assign(K.astype(np.float32))
        r, et = raises(lambda: layer.assert_constraints(eps=eps))
        total += 1
        nontriv += int(v == "must-raise")
        if v == "must-pass" and units == 1 and feas is None:
          feas = w
        if (v == "must-raise") != r or (r and et != "InvalidArgumentError"):
          kind = "accepts-violation" if v == "must-raise" else "rejects-feasible"
          if r and et != "InvalidArgumentError":
            kind = "wrong-exception-" + str(et)
          bad = min(sl, key=lambda k: np.min(sl[k]))
          msgs.append((kind + "-" + bad.rstrip("0123456789") + ("-units2" if units == 2 else ""),
                       dict(item=item, kernel=K.tolist(), eps=eps, units=units),
                       "%s: Linear weights %s eps=%g most violated %s (%.4g)" %
                       (kind, K.T.tolist(), eps, bad, np.min(sl[bad]))))
          break
      if msgs:
        break
    if units == 1 and feas is not None:
      item["_feas"] = feas.tolist()
    if msgs:
      break
    if units == 1:
      # carry the feasible column into the units=2 pass
      pass
  if ctx is not None:
    ctx.add(evaluations=total, nontrivial=nontriv, traces=total)
    ctx.tab("other_cfgs", "linear")
  return msgs


def cat_case(item, ctx=None):
  tf, tfl = bind.bind()
  cc = item["ccfg"]
  nb = cc["nb"]
  msgs, total, nontriv = [], 0, 0
  W = alpha.words(alpha.A3, nb)
  for units in (1, 2):
    layer = tfl.layers.CategoricalCalibration(
        num_buckets=nb, units=units, output_min=cc["lo"], output_max=cc["hi"],
        monotonicities=[tuple(p) for p in cc["pairs"]] or None, kernel_initializer="zeros")
    layer.build((None, 1))
    feas = None
    for c in range(W.shape[1]):
      w = W[:, c] * 0.4
      sl = {}
      for i, j in cc["pairs"]:
        sl["pair%d%d" % (i, j)] = np.array([w[j] - w[i]])
      if cc["lo"] is not None:
        sl["lo"] = np.array([w.min() - cc["lo"]])
      if cc["hi"] is not None:
        sl["hi"] = np.array([cc["hi"] - w.max()])
      for eps in EPSS:
        v = verdict(sl, eps)
        if v is None:
          continue
        if units == 1:
          K = w[:, None]
        else:
          if feas is None:
            continue
          K = np.stack([feas, w], axis=1)
        layer.kernel.assign(K.astype(np.float32))
        r, et = raises(lambda: layer.assert_constraints(eps=eps))
        total += 1
        nontriv += int(v == "must-raise")
        if v == "must-pass" and units == 1 and feas is None:
          feas = w
        if (v == "must-raise") != r or (r and et != "InvalidArgumentError"):
          kind = "accepts-violation" if v == "must-raise" else "rejects-feasible"
          if r and et != "InvalidArgumentError":
            kind = "wrong-exception-" + str(et)
          bad = min(sl, key=lambda k: np.min(sl[k]))
          msgs.append((kind + "-" + bad.rstrip("0123456789"), dict(item=item, kernel=K.tolist(), eps=eps, units=units),
                       "%s: categorical values %s eps=%g most violated %s" % (kind, K.T.tolist(), eps, bad)))
          break
      if msgs:
        break
    if msgs:
      break
  if ctx is not None:
    ctx.add(evaluations=total, nontrivial=nontriv, traces=total)
    ctx.tab("other_cfgs", "categorical")
  return msgs


def kfl_case(item, ctx=None):
  tf, tfl = bind.bind()
  from vt.checks import c07
  L, dims, terms = item["L"], item["dims"], item["terms"]
  lo, hi = c07.BOUNDS[item["bounds"]]
  cfg = dict(item, clip=True)
  layer = c07.make_layer(cfg, 1)
  e = L * dims * terms
  letters = (-1.0, 0.25, 0.5, 2.0) if e <= 4 else (-1.0, 0.5, 2.0)
  W = alpha.words(letters, e).T
  X, pts = rk.grid(L, dims, outside=False)
  msgs, total, nontriv = [], 0, 0
  bound = None if lo is None or hi is None else (hi - lo) / 2.0
  for s in alpha.words((-2.0, -0.5, 0.5, 2.0), terms).T:
    for w in W:
      K = w.reshape(L, dims, terms)
      # weight-level constraints the layer documents
      sl = {}
      direction = np.sign(s)
      if any(item["mono"]):
        sl["nonneg"] = K.reshape(-1)
        for d in range(dims):
          if item["mono"][d]:
            sl["mono%d" % d] = (np.diff(K[:, d, :], axis=0) * direction[None, :]).reshape(-1)
      if lo is not None and hi is not None:
        sl["maxprod"] = 1.0 - np.prod(np.abs(K).max(axis=0), axis=0)
        sl["scale"] = bound - np.abs(s)
      elif lo is not None:
        sl["nonneg"] = K.reshape(-1)
        sl["scale"] = s
      elif hi is not None:
        sl["nonneg"] = K.reshape(-1)
        sl["scale"] = -s
      for eps in EPSS:
        v = verdict(sl, eps)
        if v is None:
          continue
        c07.set_weights(layer, cfg, K[None], s[None])
        if v == "must-raise" and any(item["mono"]) and ((lo is None) == (hi is None)):
          others = {k: x for k, x in sl.items() if k != "nonneg"}
          if verdict(others, eps) != "must-raise":
            # only the sign of the weights is off: non-negativity is the layer's sufficient
            # condition, the covered constraint is monotonicity of the FUNCTION. Judge that.
            out = c07.evaluate(layer, cfg, 1, X).reshape(-1, 1)
            fun = [m for _, k_, m in c07.judge_outputs(cfg, out, X, pts)]
            if not fun:
              continue
        r, et = raises(lambda: layer.assert_constraints(eps=eps))
        total += 1
        nontriv += int(v == "must-raise")
        if (v == "must-raise") != r or (r and et != "InvalidArgumentError"):
          kind = "accepts-violation" if v == "must-raise" else "rejects-feasible"
          if r and et != "InvalidArgumentError":
            kind = "wrong-exception-" + str(et)
          bad = min(sl, key=lambda k: np.min(sl[k]))
          # is the layer FUNCTION really violating monotonicity / bounds? (context for the message)
          out = c07.evaluate(layer, cfg, 1, X).reshape(-1, 1)
          fun = c07.judge_outputs(cfg, out, X, pts)
          msgs.append((kind + "-" + bad.rstrip("0123456789"),
                       dict(item=item, kernel=K.tolist(), scale=s.tolist(), eps=eps),
                       "%s: KFL kernel %s scale %s eps=%g most violated %s (%.4g); layer function: %s" %
                       (kind, K.tolist(), s.tolist(), eps, bad, np.min(sl[bad]),
                        "; ".join(m for _, _, m in fun) or "no violation on the grid")))
          break
      if msgs:
        break
    if msgs:
      break
  if ctx is not None:
    ctx.add(evaluations=total, nontrivial=nontriv, traces=total)
    ctx.tab("other_cfgs", "kfl")
  return msgs


def rtl_case(item, ctx=None):
  """RTL.assert_constraints delegates to every sub-lattice."""
  tf, tfl = bind.bind()
  tf.random.set_seed(3)
  msgs, total = [], 0
  for par in ("all_vertices", "kronecker_factored"):
    kw = dict(kernel_initializer="kfl_random_monotonic_initializer") if par == "kronecker_factored" else {}
    layer = tfl.layers.RTL(num_lattices=3, lattice_rank=2, lattice_size=2, parameterization=par,
                           output_min=0.0, output_max=1.0, random_seed=1, **kw)
    layer({"increasing": tf.zeros((1, 2)), "unconstrained": tf.zeros((1, 2))})
    r, et = raises(lambda: layer.assert_constraints(eps=1e-4))
    total += 1
    if r:
      msgs.append(("rejects-feasible-rtl", dict(item=item, par=par), "fresh RTL layer fails its own assertion (%s)" % et))
      continue
    for key, sub in layer._lattice_layers.items():
      if max(eval(key)) == 0 and par == "all_vertices":
        tgt = "bounds"
      else:
        tgt = "monotonicity"
      k0 = sub.kernel.numpy().copy()
      k = k0.copy()
      if par == "all_vertices":
        k[0, 0] = 5.0 if tgt == "bounds" else k.max() + 0.0
        k[-1, 0] = k[-1, 0] if tgt == "bounds" else -0.5
      else:
        k = -np.abs(k) - 1.0
      sub.kernel.assign(k)
      r, et = raises(lambda: layer.assert_constraints(eps=1e-4))
      total += 1
      sub.kernel.assign(k0)
      if not r:
        msgs.append(("accepts-violation-rtl", dict(item=item, par=par, sublayer=key),
                     "RTL.assert_constraints accepts a violation injected into sub-lattice %s (%s)" % (key, par)))
  if ctx is not None:
    ctx.add(evaluations=total, nontrivial=total - 2, traces=total)
    ctx.tab("other_cfgs", "rtl")
  return msgs


def _dispatch(item, ctx):
  k = item["kind"]
  return dict(lattice=lattice_case, pwl=pwl_case, linear=linear_case, cat=cat_case, kfl=kfl_case,
              rtl=rtl_case)[k](item, ctx)


def replay(case):
  tf, tfl = bind.bind()
  if "cfg" in case:  # lattice
    cfg = case["cfg"]
    kw = dict(cfg["kw"])
    for k in ("edgeworth_trusts", "trapezoid_trusts", "monotonic_dominances", "range_dominances",
              "joint_monotonicities"):
      if k in kw:
        kw[k] = [tuple(t) for t in kw[k]]
    K = np.asarray(case["kernel"], dtype=np.float64)
    if K.ndim == 1:
      K = K[:, None]
    units = K.shape[1]
    l = tfl.layers.Lattice(lattice_sizes=cfg["sizes"], units=units, **kw)
    l.build((None, len(cfg["sizes"])) if units == 1 else (None, units, len(cfg["sizes"])))
    l.kernel.assign(K.astype(np.float32))
    A, _ = lattice_rows(cfg["sizes"], kw)
    worst = 1e9
    for u in range(units):
      sl = [np.min(A @ K[:, u])] if A.shape[0] else []
      if kw.get("output_min") is not None:
        sl.append(K[:, u].min() - kw["output_min"])
      if kw.get("output_max") is not None:
        sl.append(kw["output_max"] - K[:, u].max())
      worst = min([worst] + sl)
    r, et = raises(lambda: l.assert_constraints(eps=case["eps"]))
    if worst < -MARGIN * case["eps"] and not r:
      return "assert_constraints accepts a kernel violating a covered constraint by %.4g" % -worst
    if worst >= MARGIN * case["eps"] and r:
      return "assert_constraints rejects a kernel that is feasible with margin %.4g (%s)" % (worst, et)
    return None
  msgs = _dispatch(case["item"], None)
  return "; ".join(m for _, _, m in msgs) or None


def work(ctx, item):
  msgs = _dispatch(item, ctx)
  ctx.sample({k: v for k, v in item.items() if not k.startswith("_")}, limit=5)
  for kind, case, msg in msgs:
    ctx.violation(dict(layer=item["kind"], verdict=kind), case, msg)


def run(ctx):
  items = alpha.rotate(lattice_cfgs(ctx.tier) + simple_items(ctx.tier), ctx.seed)
  ctx.rule = (
      "every layer kind offering assert_constraints: Lattice (21 configurations quick; thorough adds every "
      "pairwise family on every ordered feature pair of the unequal-size rank-3 shapes, 4x3/3x4/4x4 and a "
      "rank-4 lattice; covering "
      "monotonicity, bounds, Edgeworth, trapezoid, monotonic/range dominance, joint monotonicity) x "
      "ALL kernels of {-1,0,1}^n (n<=6; directed single-violation sets above) x eps {1e-6,1e-3}, "
      "plus 2-unit kernels [feasible|offender] in both orders; PWL x all words of {-2..2}^k x "
      "missing outputs; Linear (C06 configurations) and Categorical (all DAGs on <=3 buckets) x "
      "words; KFL x kernel words x scale words; RTL delegation. Oracle: reference slack < -10 eps "
      "=> must raise InvalidArgumentError, all slacks >= 10 eps => must return. Non-trivial = "
      "weight tensor with a covered violation.")
  ctx.assumptions += ["weights exactly on a constraint boundary are not judged (no margin)"]
  pool.pmap(ctx, "vt.checks.c12", "work", items, chunk=1)
