"""C16 - Configurations are either rejected up front or handled totally and finitely."""
import itertools

import numpy as np

from vt.core import alpha, bind, pool
from vt.ref import lattice as rl

ID = "C16"
LEVEL = "exploration"


class Outcome(object):
  REJECTED = "rejected"
  ACCEPTED = "accepted"


def attempt(build, exercise):
  """Runs construct/build, then the exercise. Returns (stage_outcome, detail)."""
  try:
    obj = build()
  except ValueError as e:
    return Outcome.REJECTED, str(e)[:120]
  except Exception as e:  # pylint: disable=broad-except
    return "wrong-exception-at-construction", "%s: %s" % (type(e).__name__, str(e)[:160])
  try:
    fin = exercise(obj)
  except Exception as e:  # pylint: disable=broad-except
    return "accepted-then-raises", "%s: %s" % (type(e).__name__, str(e)[:200])
  if not fin:
    return "accepted-non-finite", "non-finite projection or output"
  return Outcome.ACCEPTED, ""


def graph_call(layer, x):
  """The same call traced as a graph with an unknown batch dimension (what Keras fit / predict / a
  functional model does). Must not raise and must agree with the eager result."""
  tf, _ = bind.bind()
  x = tf.convert_to_tensor(x)
  fn = tf.function(lambda t: layer(t), input_signature=[tf.TensorSpec([None] + list(x.shape[1:]), x.dtype)])
  g = np.asarray(fn(x))
  e = np.asarray(layer(x))
  if g.shape != e.shape or not np.allclose(g, e, rtol=1e-5, atol=1e-6, equal_nan=True):
    raise AssertionError("graph-mode call (unknown batch size) differs from the eager call")
  return g


def judge(expect, outcome):
  """expect in {'reject','accept','either'}; returns violation kind or None."""
  if outcome not in (Outcome.REJECTED, Outcome.ACCEPTED):
    return outcome
  if expect == "reject" and outcome == Outcome.ACCEPTED:
    return "accepted-invalid"
  if expect == "accept" and outcome == Outcome.REJECTED:
    return "rejected-valid"
  return None


# ------------------------------------------------------------------- Lattice
def lattice_trials(tier):
  trials = []
  mono_vals = [0, 1, "increasing", "none", -1, "decreasing"]
  uni_vals = [0, 1, -1, "valley", "peak"]
  trust_sets = [None, [(0, 1, 1)], [(0, 1, "positive")], [(1, 0, -1)], [(0, 0, 1)], [(0, 2, 1)],
                [(0, 1, 1), (0, 1, -1)], [(0, 1, 1), (1, 0, 1)], (0, 1, 1), [(0, 1, 0.5)],
                [[0, 1, 1]], [[0, 1, "negative"]]]
  for sizes in ([1], [2], [3], [2, 2], [2, 3], [3, 1], [3, 3]):
    d = len(sizes)
    for mono in itertools.product(mono_vals, repeat=d):
      for uni in itertools.product(uni_vals, repeat=d) if d == 1 else ([0] * d, [0, 1], [1, 0], ["valley", -1], [0, "peak"], ["peak", 0]):
        uni = list(uni)
        if d == 1:
          tsets = [None]
        else:
          tsets = trust_sets
        for ts in tsets:
          for fam in ("edgeworth_trusts", "trapezoid_trusts"):
            if ts is None and fam == "trapezoid_trusts":
              continue
            for bounds in ((None, None), (0.0, 1.0), (1.0, 0.0), (1.0, 1.0)):
              if tier == "quick" and d == 2 and bounds[0] is not None and ts is not None and fam == "trapezoid_trusts":
                continue
              trials.append(dict(kind="lattice", sizes=sizes, mono=list(mono), uni=uni, trusts=ts,
                                 fam=fam, lo=bounds[0], hi=bounds[1]))
  # larger / even sizes (the unimodal initialisers and projections branch on size parity)
  for sizes in ([4], [5], [6], [3, 4], [4, 2], [4, 4], [2, 5]):
    d = len(sizes)
    for mono in itertools.product([0, 1, "decreasing"], repeat=d):
      for uni in itertools.product([0, 1, -1, "peak"], repeat=d):
        for bounds in ((None, None), (0.0, 1.0)):
          trials.append(dict(kind="lattice", sizes=sizes, mono=list(mono), uni=list(uni), trusts=None,
                             fam="edgeworth_trusts", lo=bounds[0], hi=bounds[1]))
  # multi-unit layers, lattice_sizes given as a list or as a tuple, every constraint family + regularizers
  for sizes in ([2, 2], [3, 2], [2, 3, 2]):
    for as_tuple in (False, True):
      for units in (2, 3):
        for key, val in ((None, None), ("edgeworth_trusts", [(0, 1, 1)]), ("trapezoid_trusts", [(0, 1, -1)]),
                         ("monotonic_dominances", [(0, 1)]), ("range_dominances", [(1, 0)]),
                         ("joint_monotonicities", [(0, 1)]), ("bounds", (0.0, 1.0)), ("bounds", (None, 1.0)),
                         ("kernel_regularizer", ("laplacian", 0.1, 0.2)), ("kernel_regularizer", ("torsion", 0.1, 0.2)),
                         ("kernel_regularizer", [("laplacian", [0.1] * len(sizes), 0.0), ("torsion", 0.0, 0.3)])):
          trials.append(dict(kind="latticeU", sizes=sizes, as_tuple=as_tuple, units=units, key=key, val=val))
  # 3-d lattices: every pair of (family, (main, cond, direction)) trusts - conflicts that need 3 dims
  triples = [(m, c, s) for m in range(3) for c in range(3) if m != c for s in (1, -1)]
  singles = [(f, t) for f in ("edgeworth_trusts", "trapezoid_trusts") for t in triples]
  for a, b in itertools.combinations(singles, 2):
    if tier == "quick" and (a[1][2] == -1 and b[1][2] == -1):
      continue
    trials.append(dict(kind="lattice3", pair=[[a[0], list(a[1])], [b[0], list(b[1])]]))
  # 3-d lattices with unequal sizes: every ordered feature pair (ascending AND descending index
  # order) for every pairwise constraint family
  for sizes in ([2, 2, 3], [3, 2, 2], [2, 3, 2]):
    for a, b in itertools.permutations(range(3), 2):
      for key, val in (("edgeworth_trusts", [(a, b, 1)]), ("trapezoid_trusts", [(a, b, -1)]),
                       ("monotonic_dominances", [(a, b)]), ("range_dominances", [(a, b)]),
                       ("joint_monotonicities", [(a, b)])):
        trials.append(dict(kind="lattice3s", sizes=sizes, key=key, val=[list(v) for v in val]))
  # dominances / joint constraints on 2-d lattices
  for sizes in ([2, 2], [3, 3]):
    for mono in itertools.product([0, 1], repeat=2):
      for key, val in (("monotonic_dominances", [(0, 1)]), ("range_dominances", [(0, 1)]),
                       ("monotonic_dominances", [(0, 1), (1, 0)]), ("range_dominances", [(0, 2)]),
                       ("monotonic_dominances", (1, 0)), ("joint_monotonicities", [(0, 1)]),
                       ("joint_monotonicities", [(0, 5)]), ("joint_monotonicities", (0, 1)),
                       ("joint_unimodalities", [((0, 1), "valley")]), ("joint_unimodalities", ((0,), "peak")),
                       ("joint_unimodalities", [((0, 0), "valley")]), ("joint_unimodalities", [((0, 1), "up")]),
                       # list-valued specs (what a JSON round trip of the config produces)
                       ("monotonic_dominances", [[0, 1]]), ("range_dominances", [[1, 0]]),
                       ("joint_monotonicities", [[0, 1]]), ("joint_unimodalities", [[[0, 1], "valley"]]),
                       ("both_trusts_as_lists", None)):
        trials.append(dict(kind="lattice2", sizes=sizes, mono=list(mono), key=key, val=val))
  return trials


def canon_mono(m):
  return {0: 0, 1: 1, "none": 0, "increasing": 1}.get(m, "bad")


def canon_uni(u):
  return {0: 0, 1: 1, -1: -1, "valley": 1, "peak": -1}.get(u, "bad")


def lattice_expect(t):
  sizes = t["sizes"]
  d = len(sizes)
  if any(s < 2 for s in sizes):
    return "reject"
  mono = [canon_mono(m) for m in t["mono"]]
  uni = [canon_uni(u) for u in t["uni"]]
  if "bad" in mono or "bad" in uni:
    return "reject"
  if any(m and u for m, u in zip(mono, uni)):
    return "reject"
  if any(u and s < 3 for u, s in zip(uni, sizes)):
    return "reject"
  if t["lo"] is not None and t["hi"] is not None and t["lo"] > t["hi"]:
    return "reject"
  ts = t["trusts"]
  if ts is not None:
    if isinstance(ts, tuple):
      ts = [ts]
    mains, conds, dirs = set(), set(), {}
    for (m, c, s) in ts:
      if s not in (1, -1, "positive", "negative"):
        return "reject"
      s = {1: 1, -1: -1, "positive": 1, "negative": -1}[s]
      if m >= d or c >= d or m < 0 or c < 0:
        return "reject"
      if mono[m] != 1:
        return "reject"
      if dirs.setdefault((m, c), s) != s:
        return "reject"
      mains.add(m); conds.add(c)
    if mains & conds:
      return "reject"
  if t["lo"] is not None and t["lo"] == t["hi"]:
    return "either"
  return "accept"


def lattice_exercise(layer_and_cfg):
  tf, tfl = bind.bind()
  layer, sizes = layer_and_cfg
  n = rl.nvert(sizes)
  W = alpha.words(alpha.A3, n) if n <= 9 else alpha.words(alpha.A3, 9)[:, ::9].repeat(2, axis=0)[:n]
  W = np.concatenate([W, 1e3 * W[:, 1:8], W[:, 1:8] + 5.0], axis=1).astype(np.float32)
  units = W.shape[1]
  # constraint on all words (a fresh constraints object of the same config, packed as units)
  cons = layer.kernel.constraint
  out = np.asarray(cons(tf.constant(W))) if cons is not None else W
  ok = np.all(np.isfinite(out))
  # evaluation on the grid with the layer's own (single-unit) kernel and a projected one
  X = rl.input_grid(sizes, fine=False, outside=True).astype(np.float32)
  lu = int(layer.units)
  if lu > 1:
    X = np.repeat(X[:, None, :], lu, axis=1)
  y0 = np.asarray(layer(tf.constant(X)))
  layer.kernel.assign(out[:, 5:5 + lu])
  y1 = np.asarray(layer(tf.constant(X)))
  # the same configuration with simplex interpolation (same kernel) and, in range, without clipping
  cfg = layer.get_config()
  cfg["interpolation"] = "simplex"
  twin = type(layer).from_config(cfg)
  twin.build((None, len(sizes)) if lu == 1 else (None, lu, len(sizes)))
  twin.kernel.assign(layer.kernel.numpy())
  y2 = np.asarray(twin(tf.constant(X)))
  if lu > 1 or (len(sizes) + int(np.sum(sizes))) % 3 == 0:
    graph_call(layer, X)
    graph_call(twin, X)
  Xi = rl.input_grid(sizes, fine=False, outside=False).astype(np.float32)
  if lu > 1:
    Xi = np.repeat(Xi[:, None, :], lu, axis=1)
  for interp in ("hypercube", "simplex"):
    cfg["interpolation"] = interp
    cfg["clip_inputs"] = False
    nc = type(layer).from_config(cfg)
    nc.build((None, len(sizes)) if lu == 1 else (None, lu, len(sizes)))
    nc.kernel.assign(layer.kernel.numpy())
    ok = ok and np.all(np.isfinite(np.asarray(nc(tf.constant(Xi)))))
  ok = ok and all(np.all(np.isfinite(np.asarray(l))) for l in layer.losses)
  layer.finalize_constraints()
  layer.assert_constraints(eps=1e9)
  return bool(ok and np.all(np.isfinite(y0)) and np.all(np.isfinite(y1)) and np.all(np.isfinite(y2)))


def latticeU_build(t):
  tf, tfl = bind.bind()
  sizes = list(t["sizes"])
  d = len(sizes)
  kw = dict(lattice_sizes=tuple(sizes) if t["as_tuple"] else sizes, units=t["units"], monotonicities=[1] * d)
  if t["key"] == "bounds":
    kw["output_min"], kw["output_max"] = t["val"]
  elif t["key"] == "kernel_regularizer":
    v = t["val"]
    kw["kernel_regularizer"] = [tuple(x) for x in v] if isinstance(v[0], (list, tuple)) else tuple(v)
  elif t["key"] is not None:
    kw[t["key"]] = [tuple(v) for v in t["val"]]
  def build():
    layer = tfl.layers.Lattice(**kw)
    layer.build((None, t["units"], d))
    return layer, sizes
  return build


def lattice_build(t):
  tf, tfl = bind.bind()
  kw = dict(lattice_sizes=list(t["sizes"]), monotonicities=list(t["mono"]), unimodalities=list(t["uni"]),
            output_min=t["lo"], output_max=t["hi"])
  if t["trusts"] is not None:
    kw[t["fam"]] = t["trusts"]
  def build():
    layer = tfl.layers.Lattice(**kw)
    layer.build((None, len(t["sizes"])))
    return layer, list(t["sizes"])
  return build


def lattice3_expect(t):
  mains, conds, dirs = set(), set(), {}
  for fam, (m, c, s) in t["pair"]:
    if dirs.setdefault((m, c), s) != s:
      return "reject"
    mains.add(m); conds.add(c)
  return "reject" if mains & conds else "accept"


def lattice3_build(t):
  tf, tfl = bind.bind()
  def build():
    kw = {}
    for fam, tr in t["pair"]:
      kw.setdefault(fam, []).append(tuple(tr))
    layer = tfl.layers.Lattice(lattice_sizes=[2, 2, 2], monotonicities=[1, 1, 1], **kw)
    layer.build((None, 3))
    return layer, [2, 2, 2]
  return build


def lattice3s_build(t):
  tf, tfl = bind.bind()
  def build():
    layer = tfl.layers.Lattice(lattice_sizes=list(t["sizes"]), monotonicities=[1, 1, 1],
                               **{t["key"]: [tuple(v) for v in t["val"]]})
    layer.build((None, 3))
    return layer, list(t["sizes"])
  return build


def lattice2_expect(t):
  d = 2
  mono = t["mono"]
  key, val = t["key"], t["val"]
  if key == "both_trusts_as_lists":
    return "accept" if mono[0] == 1 else "reject"
  v = [val] if isinstance(val, tuple) and not isinstance(val[0], tuple) and key != "joint_unimodalities" else val
  if key == "joint_unimodalities":
    v = [val] if (isinstance(val, tuple) and len(val) == 2 and isinstance(val[1], str)) else val
    for dims, direction in v:
      dims = tuple(dims)
      if direction not in ("valley", "peak"):
        return "reject"
      if len(set(dims)) != len(dims) or any(q >= d for q in dims):
        return "reject"
      if any(t["sizes"][q] < 3 for q in dims) or any(mono[q] for q in dims):
        return "reject"
    return "accept"
  v = [tuple(p) for p in v]
  for a, b in v:
    if a >= d or b >= d:
      return "reject"
  if key in ("monotonic_dominances", "range_dominances"):
    if any(mono[a] != 1 or mono[b] != 1 for a, b in v):
      return "reject"
    if any((b, a) in v for a, b in v):
      return "reject"
  return "accept"


def lattice2_build(t):
  tf, tfl = bind.bind()
  def build():
    kw = {t["key"]: t["val"]}
    if t["key"] == "both_trusts_as_lists":
      kw = dict(edgeworth_trusts=[[0, 1, 1]], trapezoid_trusts=[[0, 1, 1]])
    layer = tfl.layers.Lattice(lattice_sizes=list(t["sizes"]), monotonicities=list(t["mono"]), **kw)
    layer.build((None, 2))
    return layer, list(t["sizes"])
  return build


# ----------------------------------------------------------------------- PWL
def pwl_trials(tier):
  trials = []
  kps = [[0.0, 1.0, 2.0], [0.0, 2.0, 1.0], [0.0, 1.0, 1.0], [0.0], [], [0.0, 1.0]]
  for kp in kps:
    for mono in (0, 1, -1, "increasing", "decreasing", "none", 2, "up"):
      for conv in (0, 1, -1, "convex", "concave", "flat"):
        for cyc in (False, True):
          for lo, hi in ((None, None), (0.0, 1.0), (1.0, 0.0), (0.5, 0.5), (0.0, None)):
            for cmin, cmax in ((False, False), (True, False), (False, True)):
              if tier == "quick" and kp in ([0.0], []) and (conv != 0 or cyc or cmin or cmax):
                continue
              if tier == "quick" and mono in (2, "up") and (conv != 0 or lo is not None):
                continue
              trials.append(dict(kind="pwl", kp=kp, mono=mono, conv=conv, cyc=cyc, lo=lo, hi=hi,
                                 cmin=cmin, cmax=cmax))
  for imp, miv, mov in itertools.product((False, True), (None, -1.0), (None, 0.5)):
    trials.append(dict(kind="pwl-missing", imp=imp, miv=miv, mov=mov))
  for ktype in ("fixed", "learned_interior", "learned"):
    for conv in (0, 1):
      for units in (1, 2):
        trials.append(dict(kind="pwl-ktype", ktype=ktype, conv=conv, units=units))
  return trials


def pwl_expect(t):
  kp = t["kp"]
  if len(kp) < 2 or any(kp[i] >= kp[i + 1] for i in range(len(kp) - 1)):
    return "reject"
  mono = {0: 0, 1: 1, -1: -1, "increasing": 1, "decreasing": -1, "none": 0}.get(t["mono"], "bad")
  conv = {0: 0, 1: 1, -1: -1, "convex": 1, "concave": -1, "none": 0}.get(t["conv"], "bad")
  if mono == "bad" or conv == "bad":
    return "reject"
  if t["cyc"] and (mono or conv):
    return "reject"
  if t["lo"] is not None and t["hi"] is not None and t["lo"] > t["hi"]:
    return "reject"
  if t["cyc"] and len(kp) < 3:
    return "either"  # a cyclic calibrator with a single free output: degenerate
  if (t["cmin"] and t["lo"] is not None) or (t["cmax"] and t["hi"] is not None):
    if mono == 0:
      return "either"  # clamping is documented for monotonic calibrators only
  if t["lo"] is not None and t["lo"] == t["hi"]:
    return "either"
  return "accept"


def pwl_build(t):
  tf, tfl = bind.bind()
  def build():
    layer = tfl.layers.PWLCalibration(
        input_keypoints=np.array(t["kp"], dtype=np.float32) if len(t["kp"]) else t["kp"],
        monotonicity=t["mono"], convexity=t["conv"], is_cyclic=t["cyc"], output_min=t["lo"],
        output_max=t["hi"], clamp_min=t["cmin"], clamp_max=t["cmax"])
    layer.build((None, 1))
    return layer
  return build


def pwl_exercise(layer):
  tf, tfl = bind.bind()
  n = int(layer.kernel.shape[0])
  W = alpha.words(alpha.A3, n)
  W = np.concatenate([W, 1e3 * W[:, 1:6], W[:, 1:6] + 5.0], axis=1).astype(np.float32)
  out = np.asarray(layer.kernel.constraint(tf.constant(W)))
  ok = np.all(np.isfinite(out))
  xs = np.array([[-5.0], [0.0], [0.5], [1.0], [1.5], [2.0], [9.0]], dtype=np.float32)
  y0 = np.asarray(layer(tf.constant(xs)))
  layer.kernel.assign(out[:, 4:5])
  y1 = np.asarray(layer(tf.constant(xs)))
  graph_call(layer, xs)
  return bool(ok and np.all(np.isfinite(y0)) and np.all(np.isfinite(y1)))


# -------------------------------------------------------------------- Linear
def linear_trials(tier):
  trials = []
  for n in (1, 2, 3):
    for mono in list(itertools.product([0, 1, -1], repeat=n)) + [["increasing"] * n, ["decreasing", 0, 0][:n], [2] * n, 1, "none"]:
      for dom in (None, ("md", [(0, 1)]), ("md", [(1, 0), (0, 1)]), ("md", [(0, 3)]), ("rd", [(0, 1)]),
                  ("rd-nobounds", [(0, 1)]), ("rd-zero", [(0, 1)]), ("rd-inverted", [(0, 1)]), ("both", None),
                  ("rd-unrelated-zero", [(0, 1)])):
        if dom is not None and n < 2:
          continue
        if dom is not None and dom[0] == "rd-unrelated-zero" and n < 3:
          continue
        for norm in (None, 1, 2):
          if tier == "quick" and norm == 2 and dom is not None:
            continue
          trials.append(dict(kind="linear", n=n, mono=mono if not isinstance(mono, tuple) else list(mono),
                             dom=dom, norm=norm))
  return trials


def linear_expect(t):
  n = t["n"]
  mono = t["mono"]
  if not isinstance(mono, list):
    mono = [mono] * n
  cm = [{0: 0, 1: 1, -1: -1, "increasing": 1, "decreasing": -1, "none": 0}.get(m, "bad") for m in mono]
  if "bad" in cm or len(cm) != n:
    return "reject"
  dom = t["dom"]
  if dom is None:
    return "accept"
  kind, pairs = dom
  if kind == "both":
    # monotonic dominance (0,1) and range dominance (1,2)/(0,1) share an input: must be rejected
    return "reject"
  if any(a >= n or b >= n for a, b in pairs):
    return "reject"
  if kind == "md":
    if any(cm[a] != 1 or cm[b] != 1 for a, b in pairs):
      return "reject"
    if any((b, a) in pairs for a, b in pairs):
      return "reject"
    return "accept"
  if any(cm[a] != cm[b] or cm[a] == 0 for a, b in pairs):
    return "reject"
  if kind == "rd-nobounds" or kind == "rd-inverted":
    return "reject"
  if kind == "rd-zero":
    return "either"  # zero-width input range: reject or handle, but never non-finite
  return "accept"


def linear_build(t):
  tf, tfl = bind.bind()
  n = t["n"]
  kw = dict(num_input_dims=n, monotonicities=t["mono"], normalization_order=t["norm"])
  dom = t["dom"]
  if dom is not None:
    kind, pairs = dom
    if kind == "md":
      kw["monotonic_dominances"] = pairs
    elif kind == "both":
      kw["monotonic_dominances"] = [(0, 1)]
      kw["range_dominances"] = [(0, 1)] if n < 3 else [(1, 2)]
      kw["input_min"] = [0.0] * n
      kw["input_max"] = [1.0] * n
    else:
      kw["range_dominances"] = pairs
      if kind == "rd":
        kw["input_min"] = [0.0] * n; kw["input_max"] = [1.0, 2.0, 3.0][:n]
      elif kind == "rd-unrelated-zero":
        kw["input_min"] = [0.0, 0.0, 1.0]; kw["input_max"] = [1.0, 2.0, 1.0]
      elif kind == "rd-zero":
        kw["input_min"] = [1.0] * n; kw["input_max"] = [1.0] + [2.0] * (n - 1)
      elif kind == "rd-inverted":
        kw["input_min"] = [2.0] * n; kw["input_max"] = [1.0] * n
  def build():
    layer = tfl.layers.Linear(**kw)
    layer.build((None, n))
    return layer
  return build


def linear_exercise(layer):
  tf, tfl = bind.bind()
  n = int(layer.kernel.shape[0])
  W = alpha.words(alpha.A3, n).astype(np.float32)
  W = np.concatenate([W, 1e3 * W, 1e-9 * W], axis=1)
  out = W
  if layer.kernel.constraint is not None:
    out = np.asarray(layer.kernel.constraint(tf.constant(W)))
  ok = np.all(np.isfinite(out))
  X = np.array(list(itertools.product([-2.0, 0.0, 1.0, 5.0], repeat=n)), dtype=np.float32)
  layer.kernel.assign(out[:, 3:4] if np.all(np.isfinite(out[:, 3:4])) else W[:, 3:4])
  y = np.asarray(layer(tf.constant(X)))
  graph_call(layer, X)
  return bool(ok and np.all(np.isfinite(y)))


# --------------------------------------------------------------- Categorical
def cat_trials(tier):
  trials = []
  for nb in (2, 3):
    for pairs in (None, [], [(0, 1)], [(0, 1), (1, 0)], [(0, 1), (1, 2), (2, 0)], [(0, 1), (1, 2), (2, 1)],
                  [(0, 5)], [(-1, 0)], [(0, 1, 2)], ((0, 1),), "increasing", [(1, 1)]):
      for lo, hi in ((None, None), (0.0, 1.0), (1.0, 0.0), (0.5, 0.5)):
        trials.append(dict(kind="cat", nb=nb, pairs=pairs, lo=lo, hi=hi))
  return trials


def cat_expect(t):
  nb, pairs = t["nb"], t["pairs"]
  if t["lo"] is not None and t["hi"] is not None and t["lo"] > t["hi"]:
    return "reject"
  if pairs:
    if not isinstance(pairs, list):
      return "reject"
    if any((not isinstance(p, (list, tuple))) or len(p) != 2 for p in pairs):
      return "reject"
    if any(a < 0 or b < 0 or a >= nb or b >= nb for a, b in pairs):
      return "reject"
    from vt.core.alpha import is_acyclic
    if not is_acyclic(nb, pairs):
      return "either"  # circular orderings: rejected or handled, never an unexpected failure
  return "accept"


def cat_build(t):
  tf, tfl = bind.bind()
  def build():
    layer = tfl.layers.CategoricalCalibration(num_buckets=t["nb"], monotonicities=t["pairs"],
                                              output_min=t["lo"], output_max=t["hi"])
    layer.build((None, 1))
    return layer
  return build


def cat_exercise(layer):
  tf, tfl = bind.bind()
  nb = int(layer.kernel.shape[0])
  W = alpha.words(alpha.A3, nb).astype(np.float32)
  out = W
  if layer.kernel.constraint is not None:
    out = np.asarray(layer.kernel.constraint(tf.constant(np.concatenate([W, 1e3 * W], axis=1))))
  ok = np.all(np.isfinite(out))
  y = np.asarray(layer(tf.constant(np.arange(nb, dtype=np.int32)[:, None])))
  graph_call(layer, np.arange(nb, dtype=np.int32)[:, None])
  return bool(ok and np.all(np.isfinite(y)))


# ------------------------------------------------------------------ KFL / RTL
def kfl_trials(tier):
  trials = []
  for L in (1, 2, 3):
    for units in (0, 1, 2):
      for terms in (0, 1, 2):
        for mono in (None, [0, 1], [1, 1], ["increasing", "none"], [-1, 0], [1], [1, 0, 0]):
          for lo, hi in ((None, None), (0.0, 1.0), (1.0, 0.0), (1.0, 1.0), (0.0, None)):
            if tier == "quick" and (units == 0 or terms == 0 or L == 1) and (lo is not None or mono not in (None, [0, 1])):
              continue
            trials.append(dict(kind="kfl", L=L, units=units, terms=terms, mono=mono, lo=lo, hi=hi))
  return trials


def kfl_expect(t):
  if t["L"] < 2 or t["units"] < 1 or t["terms"] < 1:
    return "reject"
  if t["lo"] is not None and t["hi"] is not None and t["lo"] >= t["hi"]:
    return "reject"
  m = t["mono"]
  if m is not None:
    if len(m) != 2 or any(canon_mono(x) == "bad" for x in m):
      return "reject"
  return "accept"


def kfl_build(t):
  tf, tfl = bind.bind()
  def build():
    layer = tfl.layers.KroneckerFactoredLattice(lattice_sizes=t["L"], units=t["units"],
                                                num_terms=t["terms"], monotonicities=t["mono"],
                                                output_min=t["lo"], output_max=t["hi"])
    u = t["units"]
    layer.build(tf.TensorShape((None, 2) if u == 1 else (None, u, 2)))
    return layer
  return build


def kfl_exercise(layer):
  tf, tfl = bind.bind()
  shape = layer.kernel.shape
  e = int(np.prod(shape))
  ok = True
  for w in ((np.arange(e) % 3 - 1.0), 1e3 * (np.arange(e) % 2), -np.ones(e)):
    layer.kernel.assign(w.reshape(shape).astype(np.float32))
    layer.scale.assign(layer.scale.numpy() * -1.5)
    layer.finalize_constraints()
    u = int(layer.units)
    X = np.array(list(itertools.product([-1.0, 0.0, 0.5, 1.0, 7.0], repeat=2)), dtype=np.float32)
    y = np.asarray(layer(tf.constant(X if u == 1 else np.repeat(X[:, None, :], u, axis=1))))
    ok = ok and np.all(np.isfinite(y)) and np.all(np.isfinite(layer.kernel.numpy()))
  graph_call(layer, X if u == 1 else np.repeat(X[:, None, :], u, axis=1))
  return bool(ok)


def rtl_trials(tier):
  trials = []
  for size in (1, 2):
    for lo, hi in ((None, None), (0.0, 1.0), (1.0, 0.0)):
      for interp in ("hypercube", "simplex", "cubic"):
        for par, init in (("all_vertices", "linear_initializer"), ("all_vertices", "random_monotonic_initializer"),
                          ("kronecker_factored", "linear_initializer"),
                          ("kronecker_factored", "kfl_random_monotonic_initializer"), ("dense", "linear_initializer")):
          for reg in (None, ("torsion", 0.1, 0.1), ["laplacian", 0.1], ("laplacian", 1, 0.0)):
            for nl, rank in ((2, 2), (1, 2)):
              trials.append(dict(kind="rtl", size=size, lo=lo, hi=hi, interp=interp, par=par, init=init,
                                 reg=reg, nl=nl, rank=rank))
  return trials


def rtl_expect(t):
  if t["size"] < 2:
    return "reject"
  if t["lo"] is not None and t["hi"] is not None and t["lo"] >= t["hi"]:
    return "reject"
  if t["interp"] not in ("hypercube", "simplex"):
    return "reject"
  if t["par"] not in ("all_vertices", "kronecker_factored"):
    return "reject"
  if t["par"] == "kronecker_factored" and (t["init"] == "linear_initializer" or t["reg"] is not None):
    return "reject"
  if isinstance(t["reg"], list) and len(t["reg"]) != 3:
    return "reject"
  if t["nl"] * t["rank"] < 3:
    return "reject"  # three inputs do not fit
  if t["reg"] is not None and not isinstance(t["reg"][1], float):
    return "either"
  return "accept"


def rtl_build(t):
  tf, tfl = bind.bind()
  def build():
    layer = tfl.layers.RTL(num_lattices=t["nl"], lattice_rank=t["rank"], lattice_size=t["size"],
                           output_min=t["lo"], output_max=t["hi"], interpolation=t["interp"],
                           parameterization=t["par"], kernel_initializer=t["init"],
                           kernel_regularizer=t["reg"])
    x = {"increasing": tf.zeros((2, 1)), "unconstrained": tf.zeros((2, 2))}
    layer(x)
    return layer
  return build


def rtl_exercise(layer):
  tf, tfl = bind.bind()
  x = {"increasing": tf.constant([[0.0], [0.7]]), "unconstrained": tf.constant([[0.2, 1.0], [5.0, -1.0]])}
  y = np.asarray(layer(x))
  layer.finalize_constraints()
  return bool(np.all(np.isfinite(y)))


# ------------------------------------------------------------------- premade
def premade_trials(tier):
  trials = []
  for variant in ("ok", "no-features", "one-lattice", "rtl-mixed-sizes", "rtl-no-num", "rtl-unimodal",
                  "kfl-mixed-sizes", "kfl-trust", "bad-keypoints", "cat-bad-index", "lattices-not-lists",
                  "output-init-string", "linear-combination-bias-bounds", "ok-rtl", "ok-kfl"):
    trials.append(dict(kind="premade", variant=variant))
  return trials


def premade_expect(t):
  return "accept" if t["variant"].startswith("ok") else "reject"


def premade_build(t):
  tf, tfl = bind.bind()
  v = t["variant"]
  def fcs(sizes=(2, 2, 2)):
    return [tfl.configs.FeatureConfig(name="a", lattice_size=sizes[0], monotonicity="increasing",
                                      pwl_calibration_input_keypoints=[0.0, 1.0, 2.0]),
            tfl.configs.FeatureConfig(name="b", lattice_size=sizes[1],
                                      pwl_calibration_input_keypoints=[0.0, 1.0]),
            tfl.configs.FeatureConfig(name="c", lattice_size=sizes[2], num_buckets=3,
                                      monotonicity=[(0, 1)])]
  def build():
    E = tfl.configs.CalibratedLatticeEnsembleConfig
    if v == "ok":
      mc = E(feature_configs=fcs(), lattices=[["a", "b"], ["b", "c"]], output_initialization=[0.0, 1.0])
    elif v == "ok-rtl":
      mc = E(feature_configs=fcs(), lattices="rtl_layer", num_lattices=2, lattice_rank=2, output_initialization=[0.0, 1.0])
    elif v == "ok-kfl":
      mc = tfl.configs.CalibratedLatticeConfig(feature_configs=fcs(), parameterization="kronecker_factored",
                                               output_initialization=[0.0, 1.0])
      return tfl.premade.CalibratedLattice(mc)
    elif v == "no-features":
      mc = E(feature_configs=None, lattices=[["a", "b"], ["b", "c"]], output_initialization=[0.0, 1.0])
    elif v == "one-lattice":
      mc = E(feature_configs=fcs(), lattices=[["a", "b"]], output_initialization=[0.0, 1.0])
    elif v == "rtl-mixed-sizes":
      mc = E(feature_configs=fcs((2, 3, 2)), lattices="rtl_layer", num_lattices=2, lattice_rank=2, output_initialization=[0.0, 1.0])
    elif v == "rtl-no-num":
      mc = E(feature_configs=fcs(), lattices="rtl_layer", lattice_rank=2, output_initialization=[0.0, 1.0])
    elif v == "rtl-unimodal":
      f = fcs((3, 3, 3)); f[1].unimodality = "valley"
      mc = E(feature_configs=f, lattices="rtl_layer", num_lattices=2, lattice_rank=2, output_initialization=[0.0, 1.0])
    elif v == "kfl-mixed-sizes":
      mc = tfl.configs.CalibratedLatticeConfig(feature_configs=fcs((2, 3, 2)), parameterization="kronecker_factored",
                                               output_initialization=[0.0, 1.0])
      return tfl.premade.CalibratedLattice(mc)
    elif v == "kfl-trust":
      f = fcs(); f[1].reflects_trust_in = [tfl.configs.TrustConfig(feature_name="a")]
      mc = tfl.configs.CalibratedLatticeConfig(feature_configs=f, parameterization="kronecker_factored",
                                               output_initialization=[0.0, 1.0])
      return tfl.premade.CalibratedLattice(mc)
    elif v == "bad-keypoints":
      f = fcs(); f[0].pwl_calibration_input_keypoints = "quantiles"
      mc = tfl.configs.CalibratedLatticeConfig(feature_configs=f, output_initialization=[0.0, 1.0])
      return tfl.premade.CalibratedLattice(mc)
    elif v == "cat-bad-index":
      f = fcs(); f[2].monotonicity = [(0, 7)]
      mc = tfl.configs.CalibratedLatticeConfig(feature_configs=f, output_initialization=[0.0, 1.0])
      return tfl.premade.CalibratedLattice(mc)
    elif v == "lattices-not-lists":
      mc = E(feature_configs=fcs(), lattices="random", num_lattices=2, lattice_rank=2, output_initialization=[0.0, 1.0])
    elif v == "output-init-string":
      mc = tfl.configs.CalibratedLinearConfig(feature_configs=fcs(), output_initialization="quantiles")
      return tfl.premade.CalibratedLinear(mc)
    elif v == "linear-combination-bias-bounds":
      mc = E(feature_configs=fcs(), lattices=[["a", "b"], ["b", "c"]], use_linear_combination=True, use_bias=True,
             output_min=0.0, output_max=1.0, output_initialization=[0.0, 1.0])
    return tfl.premade.CalibratedLatticeEnsemble(mc)
  return build


def premade_exercise(model):
  tf, tfl = bind.bind()
  X = [tf.constant([[0.0], [1.5], [9.0]]), tf.constant([[0.0], [0.5], [-3.0]]), tf.constant([[0], [1], [2]])]
  y = np.asarray(model(X))
  return bool(np.all(np.isfinite(y)))


# ------------------------------------------------------------------ synonyms
def synonym_items():
  return [dict(kind="synonym", which=w) for w in
          ("lattice-mono", "lattice-unimodal", "lattice-trust-direction", "lattice-single-tuple",
           "pwl-mono", "pwl-convexity", "linear-mono", "kfl-mono")]


def synonym_case(item):
  tf, tfl = bind.bind()
  from tensorflow_lattice.python import lattice_layer
  w = item["which"]
  def lat(**kw):
    sizes = kw.pop("sizes", [3, 2])
    l = tfl.layers.Lattice(lattice_sizes=sizes, **kw)
    l.build((None, len(sizes)))
    return l
  def same_lattice(a, b, sizes):
    n = rl.nvert(sizes)
    W = alpha.words(alpha.A3, n).astype(np.float32)
    oa = np.asarray(a.kernel.constraint(tf.constant(W)))
    ob = np.asarray(b.kernel.constraint(tf.constant(W)))
    if np.abs(oa - ob).max() > 0:
      return "projections differ by %.4g" % np.abs(oa - ob).max()
    X = rl.input_grid(sizes, fine=False).astype(np.float32)
    a.kernel.assign(oa[:, 7:8]); b.kernel.assign(ob[:, 7:8])
    if np.abs(np.asarray(a(tf.constant(X))) - np.asarray(b(tf.constant(X)))).max() > 0:
      return "outputs differ"
    return None
  if w == "lattice-mono":
    return same_lattice(lat(monotonicities=["increasing", "none"]), lat(monotonicities=[1, 0]), [3, 2])
  if w == "lattice-unimodal":
    return (same_lattice(lat(unimodalities=["peak", "none"]), lat(unimodalities=[-1, 0]), [3, 2]) or
            same_lattice(lat(unimodalities=["valley", 0]), lat(unimodalities=[1, "none"]), [3, 2]))
  if w == "lattice-trust-direction":
    return (same_lattice(lat(monotonicities=[1, 0], edgeworth_trusts=[(0, 1, "positive")]),
                         lat(monotonicities=[1, 0], edgeworth_trusts=[(0, 1, 1)]), [3, 2]) or
            same_lattice(lat(monotonicities=[1, 0], trapezoid_trusts=[(0, 1, "negative")]),
                         lat(monotonicities=[1, 0], trapezoid_trusts=[(0, 1, -1)]), [3, 2]))
  if w == "lattice-single-tuple":
    msgs = []
    for key, val in (("edgeworth_trusts", (0, 1, 1)), ("trapezoid_trusts", (0, 1, -1)),
                     ("monotonic_dominances", (0, 1)), ("range_dominances", (1, 0)),
                     ("joint_monotonicities", (0, 1))):
      m = same_lattice(lat(monotonicities=[1, 1], **{key: val}), lat(monotonicities=[1, 1], **{key: [val]}), [3, 2])
      if m:
        msgs.append("%s given as a single tuple vs one-element list: %s" % (key, m))
    m = same_lattice(lat(sizes=[3, 3], joint_unimodalities=((0, 1), "valley")),
                     lat(sizes=[3, 3], joint_unimodalities=[((0, 1), "valley")]), [3, 3])
    if m:
      msgs.append("joint_unimodalities single tuple vs list: " + m)
    return "; ".join(msgs) or None
  if w in ("pwl-mono", "pwl-convexity"):
    kp = np.array([0.0, 1.0, 3.0], dtype=np.float32)
    pairs = ([("increasing", 1), ("decreasing", -1), ("none", 0)] if w == "pwl-mono"
             else [("convex", 1), ("concave", -1), ("none", 0)])
    W = alpha.words(alpha.A3, 3).astype(np.float32)
    for s, i in pairs:
      kw_s = dict(monotonicity=s) if w == "pwl-mono" else dict(convexity=s, monotonicity=1)
      kw_i = dict(monotonicity=i) if w == "pwl-mono" else dict(convexity=i, monotonicity="increasing")
      a = tfl.layers.PWLCalibration(input_keypoints=kp, output_min=0.0, output_max=1.0, **kw_s); a.build((None, 1))
      b = tfl.layers.PWLCalibration(input_keypoints=kp, output_min=0.0, output_max=1.0, **kw_i); b.build((None, 1))
      if np.abs(a.kernel.numpy() - b.kernel.numpy()).max() > 0:
        return "%r and %r initialise differently" % (s, i)
      oa = np.asarray(a.kernel.constraint(tf.constant(W))); ob = np.asarray(b.kernel.constraint(tf.constant(W)))
      if np.abs(oa - ob).max() > 0:
        return "%r and %r project differently" % (s, i)
    return None
  if w == "linear-mono":
    W = alpha.words(alpha.A3, 3).astype(np.float32)
    a = tfl.layers.Linear(num_input_dims=3, monotonicities=["increasing", "decreasing", "none"]); a.build((None, 3))
    b = tfl.layers.Linear(num_input_dims=3, monotonicities=[1, -1, 0]); b.build((None, 3))
    oa = np.asarray(a.kernel.constraint(tf.constant(W))); ob = np.asarray(b.kernel.constraint(tf.constant(W)))
    c = tfl.layers.Linear(num_input_dims=3, monotonicities="increasing"); c.build((None, 3))
    d = tfl.layers.Linear(num_input_dims=3, monotonicities=[1, 1, 1]); d.build((None, 3))
    oc = np.asarray(c.kernel.constraint(tf.constant(W))); od = np.asarray(d.kernel.constraint(tf.constant(W)))
    if np.abs(oa - ob).max() > 0 or np.abs(oc - od).max() > 0:
      return "Linear monotonicity spellings project differently"
    return None
  if w == "kfl-mono":
    outs = []
    for m in (["increasing", "none"], [1, 0]):
      tf.random.set_seed(5)
      l = tfl.layers.KroneckerFactoredLattice(lattice_sizes=3, monotonicities=m, output_min=0.0, output_max=1.0)
      l.build(tf.TensorShape((None, 2)))
      k = (np.arange(int(np.prod(l.kernel.shape))) % 5 - 2.0).reshape(l.kernel.shape).astype(np.float32)
      outs.append(np.asarray(l.kernel.constraint(tf.constant(k))))
    if np.abs(outs[0] - outs[1]).max() > 0:
      return "KFL monotonicity spellings project differently"
    return None
  return None


# ------------------------------------------------------------------- driver
FAMILIES = {
    "lattice": (lattice_expect, lattice_build, lattice_exercise),
    "latticeU": (lambda t: "accept", latticeU_build, lattice_exercise),
    "lattice2": (lattice2_expect, lattice2_build, lattice_exercise),
    "lattice3": (lattice3_expect, lattice3_build, lattice_exercise),
    "lattice3s": (lambda t: "accept", lattice3s_build, lattice_exercise),
    "pwl": (pwl_expect, pwl_build, pwl_exercise),
    "linear": (linear_expect, linear_build, linear_exercise),
    "cat": (cat_expect, cat_build, cat_exercise),
    "kfl": (kfl_expect, kfl_build, kfl_exercise),
    "rtl": (rtl_expect, rtl_build, rtl_exercise),
    "premade": (premade_expect, premade_build, premade_exercise),
}


def run_trial(t):
  tf, tfl = bind.bind()
  k = t["kind"]
  if k == "synonym":
    try:
      m = synonym_case(t)
    except Exception as e:  # pylint: disable=broad-except
      m = "synonymous spelling raises %s: %s" % (type(e).__name__, str(e)[:150])
    return ("synonyms-differ", m, "accept", "n/a") if m else (None, "", "accept", "n/a")
  if k == "pwl-missing":
    def build():
      return tfl.layers.PWLCalibration(input_keypoints=np.array([0.0, 1.0], dtype=np.float32),
                                       impute_missing=t["imp"], missing_input_value=t["miv"],
                                       missing_output_value=t["mov"])
    expect = "reject" if (not t["imp"] and (t["miv"] is not None or t["mov"] is not None)) else "accept"
    def ex(layer):
      if t["imp"] and t["miv"] is None:
        y = layer([tf.constant([[0.3]]), tf.constant([[1.0]])])
      else:
        y = layer(tf.constant([[0.3], [-1.0]]))
      return bool(np.all(np.isfinite(np.asarray(y))))
    outcome, detail = attempt(build, ex)
    return judge(expect, outcome), detail, expect, outcome
  if k == "pwl-ktype":
    def build():
      l = tfl.layers.PWLCalibration(input_keypoints=np.array([0.0, 1.0, 2.0], dtype=np.float32),
                                    input_keypoints_type=t["ktype"], convexity=t["conv"], units=t.get("units", 1))
      l.build((None, 1)); return l  # one shared input column feeds every unit
    expect = "reject" if (t["ktype"] == "learned" or (t["ktype"] == "learned_interior" and t["conv"])) else "accept"
    outcome, detail = attempt(build, lambda l: bool(np.all(np.isfinite(np.asarray(l(tf.constant([[0.5], [3.0]])))))
                                                   and np.all(np.isfinite(graph_call(l, np.array([[0.5], [3.0]], dtype=np.float32))))))
    return judge(expect, outcome), detail, expect, outcome
  expect_fn, build_fn, exercise_fn = FAMILIES[k]
  expect = expect_fn(t)
  outcome, detail = attempt(build_fn(t), exercise_fn)
  return judge(expect, outcome), detail, expect, outcome


def replay(case):
  v, detail, expect, outcome = run_trial(case)
  return ("%s (expected %s, outcome %s): %s" % (v, expect, outcome, detail)) if v else None


def work(ctx, chunk):
  for t in chunk:
    v, detail, expect, outcome = run_trial(t)
    ctx.add(evaluations=1, nontrivial=int(expect != "accept" or outcome != Outcome.ACCEPTED), traces=1)
    ctx.tab("outcomes_%s" % t["kind"], "%s/%s" % (expect, outcome if outcome in (Outcome.ACCEPTED, Outcome.REJECTED) else "other"))
    if v:
      sig = dict(kind=t["kind"], violation=v)
      if t["kind"] == "pwl":
        sig["clamp_without_mono"] = int((t["cmin"] or t["cmax"]) and t["mono"] in (0, "none"))
        sig["cyclic"] = int(t["cyc"])
      if t["kind"] == "linear" and t["dom"] is not None:
        sig["dom"] = t["dom"][0]
      if t["kind"] == "lattice":
        sig["trusts_shape"] = ("none" if t["trusts"] is None else "tuple" if isinstance(t["trusts"], tuple) else "list")
      if t["kind"] == "lattice2":
        sig["key"] = t["key"]
      if t["kind"] == "latticeU":
        sig["key"] = str(t["key"]); sig["as_tuple"] = int(t["as_tuple"])
      if t["kind"] == "premade":
        sig["variant"] = t["variant"]
      if t["kind"] == "synonym":
        sig["which"] = t["which"]
      ctx.violation(sig, t, "%s (expected %s, outcome %s): %s" % (v, expect, outcome, detail))
  ctx.sample(chunk[0], limit=6)


def run(ctx):
  trials = (lattice_trials(ctx.tier) + pwl_trials(ctx.tier) + linear_trials(ctx.tier) + cat_trials(ctx.tier) +
            kfl_trials(ctx.tier) + rtl_trials(ctx.tier) + premade_trials(ctx.tier) + synonym_items())
  trials = alpha.rotate(trials, ctx.seed)
  chunks = [trials[i:i + 40] for i in range(0, len(trials), 40)]
  ctx.tab("trials", "total", len(trials))
  ctx.rule = (
      "constructor cross-products over small valid AND invalid domains for Lattice (sizes, "
      "monotonicity/unimodality spellings, trust sets, bounds, dominances, joint constraints), "
      "PWLCalibration (keypoints, monotonicity, convexity, cyclic, bounds, clamps, missing, keypoint "
      "type), Linear, CategoricalCalibration (incl. circular pairs), KFL, RTL and premade configs; an "
      "independent validity predicate gives must-reject / must-accept; accepted configurations are "
      "exercised: projection of all {-1,0,1}^n words (+images) and evaluation on a grid must not "
      "raise and must be finite; synonymous spellings must give identical projections/outputs. "
      "Non-trivial = configuration that is invalid or rejected.")
  ctx.assumptions += ["'either' is used where the documentation leaves validity open"]
  pool.pmap(ctx, "vt.checks.c16", "work", chunks, chunk=1)
