"""C17 - Ensemble structures use every feature, fill each lattice, respect monotone slots."""
import collections
import itertools

import numpy as np

from vt.core import alpha, bind, pool

ID = "C17"
LEVEL = "exploration"


# ----------------------------------------------------------------------- RTL
def group_multisets(max_inputs):
  """(increasing group sizes, unconstrained group sizes) with total inputs <= max_inputs."""
  out = []
  sizes = (1, 2, 3)
  for ni in range(0, 4):
    for inc in itertools.combinations_with_replacement(sizes, ni):
      for nu in range(0, 4):
        for unc in itertools.combinations_with_replacement(sizes, nu):
          tot = sum(inc) + sum(unc)
          if 1 <= tot <= max_inputs:
            out.append((list(inc), list(unc)))
  return out


def rtl_items(tier, seed):
  quick = tier == "quick"
  K = 3 if quick else 12
  out = []
  for inc, unc in group_multisets(6 if quick else 7):
    tot = sum(inc) + sum(unc)
    for rank in (2, 3):
      lo = -(-tot // rank)
      for nl in range(lo, lo + 3):
        for avoid in (True, False):
          if quick and not avoid and (tot > 4):
            continue
          out.append(dict(kind="rtl", inc=inc, unc=unc, rank=rank, nl=nl, avoid=avoid,
                          seeds=[seed * K + s for s in range(K)]))
  return out


def _rtl_layer(item, seed):
  tf, tfl = bind.bind()
  return tfl.layers.RTL(num_lattices=item["nl"], lattice_rank=item["rank"], lattice_size=2,
                        random_seed=seed, avoid_intragroup_interaction=item["avoid"])


def _rtl_shape(item, reverse=False):
  """Dict insertion order must not matter: keys are documented to be handled in sorted order."""
  shape = {}
  keys = ["increasing", "unconstrained"]
  for k in (keys[::-1] if reverse else keys):
    groups = item["inc"] if k == "increasing" else item["unc"]
    if groups:
      shape[k] = [(None, g) for g in groups]
  return shape


def rtl_case(item, ctx=None):
  tf, tfl = bind.bind()
  n_inc, n_unc = sum(item["inc"]), sum(item["unc"])
  tot = n_inc + n_unc
  msgs = []
  total = 0
  for seed in item["seeds"]:
    shape = _rtl_shape(item, reverse=bool(seed % 2))
    st = _rtl_layer(item, seed)._get_rtl_structure(shape)
    st2 = _rtl_layer(item, seed)._get_rtl_structure(_rtl_shape(item, reverse=not bool(seed % 2)))
    total += 1
    if repr(st) != repr(st2):
      msgs.append("structure differs between two builds with seed %d" % seed)
    usage = collections.Counter()
    nlat = 0
    for monos, units in st:
      for idx in units:
        nlat += 1
        if len(idx) != item["rank"] or len(monos) != item["rank"]:
          msgs.append("lattice with %d inputs (rank %d)" % (len(idx), item["rank"]))
        for p, i in enumerate(idx):
          usage[i] += 1
          is_inc = i < n_inc  # sorted keys: 'increasing' inputs are flattened first
          if is_inc and monos[p] != 1:
            msgs.append("increasing input %d wired to a non-monotone lattice dimension (seed %d, %s)" %
                        (i, seed, st))
          if (not is_inc) and monos[p] != 0:
            msgs.append("unconstrained input %d wired to a monotone dimension (seed %d)" % (i, seed))
    if nlat != item["nl"]:
      msgs.append("%d lattices built, num_lattices=%d" % (nlat, item["nl"]))
    if set(usage) != set(range(tot)):
      msgs.append("inputs %s unused (seed %d)" % (sorted(set(range(tot)) - set(usage)), seed))
    elif max(usage.values()) - min(usage.values()) > 1:
      msgs.append("usage counts %s differ by more than one (seed %d)" % (dict(usage), seed))
    if msgs:
      break
  # full build: output labels + monotone function on a small grid (first seed only)
  # for both parameterizations of the sub-lattices
  for par in ("all_vertices", "kronecker_factored"):
    if msgs or not (tot <= 5 and (item["avoid"] or tot <= 3)):
      break
    seed = item["seeds"][0]
    tf.random.set_seed(seed)
    np.random.seed(seed)
    layer = tfl.layers.RTL(num_lattices=item["nl"], lattice_rank=item["rank"], lattice_size=2,
                           random_seed=seed, avoid_intragroup_interaction=item["avoid"],
                           separate_outputs=True, parameterization=par,
                           kernel_initializer=("random_monotonic_initializer" if par == "all_vertices"
                                               else "kfl_random_monotonic_initializer"))
    pts = list(itertools.product([0.0, 0.5, 1.0], repeat=tot)) if tot <= 4 else list(
        itertools.product([0.0, 1.0], repeat=tot))
    X = np.array(pts, dtype=np.float32)
    def feed(Xa):
      d, off = {}, 0
      inc, unc = [], []
      for g in item["inc"]:
        inc.append(tf.constant(Xa[:, off:off + g])); off += g
      for g in item["unc"]:
        unc.append(tf.constant(Xa[:, off:off + g])); off += g
      # 'unconstrained' inserted FIRST (what premade does when the first feature is not monotone)
      if unc:
        d["unconstrained"] = unc
      if inc:
        d["increasing"] = inc
      return d
    out = layer(feed(X))
    total += 1
    n_mono_lat = sum(len(u) for m, u in layer._rtl_structure if max(m) == 1)
    n_free_lat = sum(len(u) for m, u in layer._rtl_structure if max(m) == 0)
    got_inc = int(out["increasing"].shape[1]) if "increasing" in out else 0
    got_unc = int(out["unconstrained"].shape[1]) if "unconstrained" in out else 0
    if (got_inc, got_unc) != (n_mono_lat, n_free_lat):
      msgs.append("output labels: %d increasing / %d unconstrained outputs, but %d lattices have a "
                  "monotone input and %d have none" % (got_inc, got_unc, n_mono_lat, n_free_lat))
    # randomise kernels within constraints by a perturb+project step, then check monotonicity
    for sub in layer._lattice_layers.values():
      k = sub.kernel.numpy()
      k = k + 0.7 * np.sin(np.arange(k.size).reshape(k.shape) * 1.3)
      if par == "kronecker_factored":
        sub.scale.assign(sub.scale.numpy() * np.where(np.arange(sub.scale.shape[-1]) % 2, -1.5, 0.5).astype(np.float32))
      sub.kernel.assign(tf.constant(k.astype(np.float32)))
      if sub.kernel.constraint is not None:
        sub.kernel.assign(sub.kernel.constraint(sub.kernel))
      sub.finalize_constraints()
    out = layer(feed(X))
    allout = np.concatenate([np.asarray(out[k]) for k in sorted(out)], axis=1)
    lut = {tuple(p): r for r, p in enumerate(pts)}
    vals = sorted(set(X[:, 0].tolist()))
    for i in range(n_inc):
      for p in pts:
        if p[i] != vals[0]:
          continue
        prev = None
        for v in vals:
          q = list(p); q[i] = v
          cur = allout[lut[tuple(q)]]
          if prev is not None and (cur - prev).min() < -1e-5:
            msgs.append("raising increasing input %d lowers an RTL output by %.4g" % (i, -(cur - prev).min()))
            break
          prev = cur
        if msgs:
          break
      if msgs:
        break
  if ctx is not None:
    ctx.add(evaluations=total, nontrivial=total if (n_inc and n_unc) else 0, traces=total)
    ctx.tab("rtl", "rank%d" % item["rank"], len(item["seeds"]))
  return "; ".join(msgs[:3]) or None


# ------------------------------------------------------------ random ensemble
def random_items(tier, seed):
  K = 4 if tier == "quick" else 25
  out = []
  for nf in range(2, 7):
    for rank in range(2, 5):
      if rank > nf:
        continue
      for nl in range(2, 5):
        if nl * rank < nf:
          continue
        out.append(dict(kind="random", nf=nf, rank=rank, nl=nl, seeds=[seed * K + s for s in range(K)]))
  return out


def _ens_config(nf, rank, nl, seed, lattices):
  tf, tfl = bind.bind()
  fcs = [tfl.configs.FeatureConfig(name="f%d" % i, lattice_size=2,
                                   pwl_calibration_input_keypoints=[0.0, 1.0],
                                   monotonicity="increasing" if i % 2 == 0 else "none")
         for i in range(nf)]
  return tfl.configs.CalibratedLatticeEnsembleConfig(
      feature_configs=fcs, lattices=lattices, num_lattices=nl, lattice_rank=rank,
      random_seed=seed, output_initialization=[0.0, 1.0])


def random_case(item, ctx=None):
  tf, tfl = bind.bind()
  from tensorflow_lattice.python import premade_lib
  msgs, total = [], 0
  names = set("f%d" % i for i in range(item["nf"]))
  for seed in item["seeds"]:
    np.random.seed(12345)  # the global generator state must not matter: the function reseeds
    mc = _ens_config(item["nf"], item["rank"], item["nl"], seed, "random")
    premade_lib.set_random_lattice_ensemble(mc)
    np.random.seed(999)
    mc2 = _ens_config(item["nf"], item["rank"], item["nl"], seed, "random")
    premade_lib.set_random_lattice_ensemble(mc2)
    total += 1
    L = [list(map(str, l)) for l in mc.lattices]
    L2 = [list(map(str, l)) for l in mc2.lattices]
    if L != L2:
      msgs.append("random ensemble not a function of the seed (%d): %s vs %s" % (seed, L, L2))
    if len(L) != item["nl"]:
      msgs.append("%d lattices, expected %d" % (len(L), item["nl"]))
    for l in L:
      if len(l) != item["rank"]:
        msgs.append("lattice %s does not have rank %d inputs" % (l, item["rank"]))
      if len(set(l)) != len(l):
        msgs.append("feature repeated inside a lattice: %s (seed %d)" % (l, seed))
    used = set(f for l in L for f in l)
    if used != names:
      msgs.append("features %s unused (seed %d)" % (sorted(names - used), seed))
    if msgs:
      break
  if ctx is not None:
    ctx.add(evaluations=total, nontrivial=total, traces=total)
    ctx.tab("random_ensemble", "nf%d_rank%d_nl%d" % (item["nf"], item["rank"], item["nl"]), total)
  return "; ".join(msgs[:3]) or None


# ------------------------------------------------------------------- crystals
PATTERNS2 = {  # rank-2 prefitting lattice kernels (vertex order 00,01,10,11)
    "zero": [0, 0, 0, 0], "const": [1, 1, 1, 1], "add0": [0, 0, 1, 1], "add1": [0, 1, 0, 1],
    "xor": [0, 1, 1, 0], "and": [0, 0, 0, 1], "sum": [0, 1, 1, 2]}


def crystals_items(tier, seed):
  out = []
  for nf, rank, nl in ((3, 2, 2), (3, 2, 3), (4, 2, 2), (4, 2, 3), (4, 3, 2), (5, 2, 3), (5, 3, 2),
                       (4, 3, 3), (5, 3, 3), (5, 3, 4), (6, 3, 4)):
    for s in ((0, 1) if tier == "quick" else (0, 1, 2, 3)):
      out.append(dict(kind="crystals", nf=nf, rank=rank, nl=nl, seed=seed * 4 + s))
  return out


def crystals_case(item, ctx=None, only=None):
  tf, tfl = bind.bind()
  from tensorflow_lattice.python import premade_lib
  nf, rank, nl, seed = item["nf"], item["rank"], item["nl"], item["seed"]
  names = ["f%d" % i for i in range(nf)]
  msgs, total, nontriv = [], 0, 0
  mc = _ens_config(nf, rank, nl, seed, "crystals")
  pre = premade_lib.construct_prefitting_model_config(mc)
  pre2 = premade_lib.construct_prefitting_model_config(_ens_config(nf, rank, nl, seed, "crystals"))
  if [list(l) for l in pre.lattices] != [list(l) for l in pre2.lattices]:
    msgs.append("prefitting cover is not a function of the seed")
  # all-pairs cover
  for a, b in itertools.combinations(names, 2):
    if not any(a in l and b in l for l in pre.lattices):
      msgs.append("prefitting cover never puts %s and %s together: %s" % (a, b, pre.lattices))
  for l in pre.lattices:
    if len(l) > rank or len(set(l)) != len(l):
      msgs.append("prefitting lattice %s exceeds rank %d / repeats a feature" % (l, rank))
  if msgs:
    return "; ".join(msgs[:3])
  model = tfl.premade.CalibratedLatticeEnsemble(pre)
  lat_layers = [model.get_layer("%s_%d" % (premade_lib.LATTICE_LAYER_NAME, i)) for i in range(len(pre.lattices))]
  sizes = [int(l.kernel.shape[0]) for l in lat_layers]
  def patterns(n):
    if n == 4:
      return list(PATTERNS2.items())
    k = n.bit_length() - 1
    idx = np.array(list(itertools.product([0, 1], repeat=k)))
    return [("zero", np.zeros(n)), ("const", np.ones(n)), ("add", idx[:, 0].astype(float)),
            ("sum", idx.sum(axis=1).astype(float)), ("xor01", (idx[:, 0] ^ idx[:, 1]).astype(float)),
            ("and", idx.prod(axis=1).astype(float))][: (6 if len(lat_layers) <= 3 else 4)]
  per = [patterns(n) for n in sizes]
  # bounded alphabet per prefitting lattice so that the complete product stays within budget
  budget = 160 if (ctx is None or ctx.quick) else 4000
  nlat = len(per)
  pcount = max(2, int(budget ** (1.0 / nlat)))
  order = [0, 2, 4, 1, 3, 5, 6]  # zero, additive, xor first: the score-relevant extremes
  per = [[p[i] for i in order if i < len(p)][:pcount] for p in per]
  free = int(np.log(budget) / np.log(pcount))
  per = [p if i < free else [p[min(2, len(p) - 1)]] for i, p in enumerate(per)]
  combos = list(itertools.product(*per))
  # second family: one DOMINANT feature (every prefitting lattice that contains it is linear in it
  # with a large slope, all lattices mildly additive in the rest), for every feature and two slopes
  def dominant(f, slope):
    out = []
    for lat, n in zip(pre.lattices, sizes):
      k = len(lat)
      idx = np.array(list(itertools.product([0, 1], repeat=k)), dtype=np.float64)
      vals = 0.1 * idx.sum(axis=1) + 0.05 * idx[:, 0]
      if f in lat:
        vals = vals + slope * idx[:, list(lat).index(f)]
      out.append(("dom-%s-%g" % (f, slope), vals))
    return out
  for f in names:
    for slope in (1.0, 8.0):
      combos.append(dominant(f, slope))
  if only is not None:
    if only and str(only[0]).startswith("dom-"):
      _, f, slope = only[0].split("-")
      combos = [dominant(f, float(slope))]
    else:
      combos = [[(nm, PATTERNS2.get(nm) if sizes[i] == 4 else dict(patterns(sizes[i]))[nm])
                 for i, nm in enumerate(only)]]
  for combo in combos:
    for lay, (nm, vals) in zip(lat_layers, combo):
      lay.kernel.assign(np.asarray(vals, dtype=np.float32).reshape(-1, 1))
    total += 1
    degenerate = all(nm in ("zero", "const") for nm, _ in combo)
    nontriv += int(not degenerate)
    res = []
    for rep in range(2):
      cfg = _ens_config(nf, rank, nl, seed, "crystals")
      try:
        np.random.seed(rep)
        premade_lib.set_crystals_lattice_ensemble(cfg, pre, model)
        res.append([list(map(str, l)) for l in cfg.lattices])
      except Exception as e:  # pylint: disable=broad-except
        res.append("%s: %s" % (type(e).__name__, str(e)[:120]))
    tag = [nm for nm, _ in combo]
    if isinstance(res[0], str):
      msgs.append(("raises-nan-score" if "NaN to integer" in res[0] else "raises", tag,
                   "set_crystals_lattice_ensemble raised %s for prefitting kernels %s" % (res[0], tag)))
    else:
      L = res[0]
      if res[0] != res[1]:
        msgs.append(("nondeterministic", tag, "crystals structure differs between two runs for %s" % tag))
      if len(L) != nl or any(len(l) != rank for l in L):
        msgs.append(("rank", tag, "crystals lattices %s do not all have rank %d (x%d) for %s" % (L, rank, nl, tag)))
      used = set(f for l in L for f in l)
      if used != set(names):
        msgs.append(("unused", tag, "crystals ensemble %s leaves %s unused for %s" %
                     (L, sorted(set(names) - used), tag)))
      if any(len(set(l)) != len(l) for l in L):
        msgs.append(("repeat", tag, "crystals ensemble repeats a feature inside a lattice: %s for %s" % (L, tag)))
    # keep one message per (kind of failure, degeneracy class); keep enumerating
    seen, uniq = set(), []
    for m in msgs:
      deg = "degenerate" if all(t in ("zero", "const") for t in m[1]) else (
          "has-flat-lattice" if any(t in ("zero", "const") for t in m[1]) else "regular")
      if (m[0], deg) not in seen:
        seen.add((m[0], deg)); uniq.append(m)
    msgs = uniq
  if ctx is not None:
    ctx.add(evaluations=total, nontrivial=nontriv, traces=total)
    ctx.tab("crystals", "nf%d_rank%d_nl%d" % (nf, rank, nl), total)
  return msgs


_PROC_SCRIPT = r"""
import json, sys
sys.path.insert(0, %r)
from vt.core import bind
tf, tfl = bind.bind()
import numpy as np
from tensorflow_lattice.python import premade_lib
from vt.checks import c17
out = {}
for nf, rank, nl in ((4, 2, 4), (5, 3, 3), (6, 2, 5)):
  for seed in (1, 2):
    mc = c17._ens_config(nf, rank, nl, seed, "random")
    premade_lib.set_random_lattice_ensemble(mc)
    out["random/%%d/%%d/%%d/%%d" %% (nf, rank, nl, seed)] = [list(map(str, l)) for l in mc.lattices]
for inc, unc, rank, nl in (([2, 1], [1, 2], 2, 4), ([1], [3], 3, 3)):
  item = dict(inc=inc, unc=unc, rank=rank, nl=nl, avoid=True)
  st = c17._rtl_layer(item, 3)._get_rtl_structure(c17._rtl_shape(item))
  out["rtl/%%s/%%s/%%d/%%d" %% (inc, unc, rank, nl)] = repr(st)
print("RESULT" + json.dumps(out, sort_keys=True))
"""


def process_case(item, ctx=None):
  """Seed-derived structures must not depend on the interpreter's string-hash seed: the same
  configurations are built in separate processes with different PYTHONHASHSEED values."""
  import json, os, subprocess, sys
  from vt.core import ctx as ctxmod
  outs = []
  for hs in item["hashseeds"]:
    env = dict(os.environ, PYTHONHASHSEED=str(hs))
    r = subprocess.run([sys.executable, "-W", "ignore", "-c", _PROC_SCRIPT % ctxmod.VERIF_ROOT], env=env,
                       stdout=subprocess.PIPE, stderr=subprocess.DEVNULL, timeout=900)
    line = [l for l in r.stdout.decode().splitlines() if l.startswith("RESULT")]
    if not line:
      return "structure-building subprocess (PYTHONHASHSEED=%s) produced no result (exit %s)" % (hs, r.returncode)
    outs.append(json.loads(line[0][6:]))
  msgs = []
  for k in outs[0]:
    vals = [o[k] for o in outs]
    if any(v != vals[0] for v in vals):
      msgs.append("%s differs between processes with PYTHONHASHSEED %s: %s" % (k, item["hashseeds"], vals))
  if ctx is not None:
    ctx.add(evaluations=len(outs[0]) * len(outs), nontrivial=len(outs[0]) * len(outs), traces=len(outs))
    ctx.tab("process_determinism", "structures_compared", len(outs[0]))
  return "; ".join(msgs[:2]) or None


def replay(case):
  k = case["kind"]
  if k == "process":
    return process_case(case)
  if k == "rtl":
    return rtl_case(case)
  if k == "random":
    return random_case(case)
  msgs = crystals_case(case, only=case.get("only"))
  if isinstance(msgs, str):
    return msgs
  return "; ".join(m for _, _, m in msgs) or None


def work(ctx, item):
  k = item["kind"]
  ctx.sample(item, limit=5)
  if k == "crystals":
    msgs = crystals_case(item, ctx)
    if isinstance(msgs, str):
      ctx.violation(dict(kind=k, what="prefitting-cover"), item, msgs)
      return
    for what, tag, msg in msgs:
      deg = "degenerate" if all(t in ("zero", "const") for t in tag) else (
          "has-flat-lattice" if any(t in ("zero", "const") for t in tag) else "regular")
      ctx.violation(dict(kind=k, what=what, prefit=deg), dict(item, only=tag), msg)
    return
  msg = (process_case(item, ctx) if k == "process" else
         rtl_case(item, ctx) if k == "rtl" else random_case(item, ctx))
  if msg:
    ctx.violation(dict(kind=k, what=("usage" if "usage" in msg or "unused" in msg else
                                     "monotone-slot" if "wired" in msg else
                                     "determinism" if "differs" in msg or "not a function" in msg
                                     else "other")), item, msg)


def run(ctx):
  items = rtl_items(ctx.tier, ctx.seed) + random_items(ctx.tier, ctx.seed) + crystals_items(ctx.tier, ctx.seed)
  items.append(dict(kind="process", hashseeds=[1, 2, 77] if ctx.quick else [1, 2, 3, 77, 4242]))
  items = alpha.rotate(items, ctx.seed)
  ctx.rule = (
      "RTL: every multiset of increasing/unconstrained input groups (group sizes 1-3, <=6 inputs) x "
      "rank {2,3} x num_lattices from the minimum that fits to +2 x avoid_intragroup x seed window: "
      "structure invariants on _get_rtl_structure, determinism over two builds, full build with "
      "output labels and the monotone-function check on a grid; random ensemble: features 2-6 x "
      "rank 2-4 x lattices 2-4 x seeds; Crystals: real prefitting config/model, ALL combinations of "
      "prefitting lattice kernels over a pattern alphabet (zero, constant, additive, xor, and, sum) "
      "through set_crystals_lattice_ensemble; the same random-ensemble / RTL structures built in separate "
      "processes with different PYTHONHASHSEED values. Non-trivial = structure with both monotone and free "
      "inputs (RTL) / non-degenerate prefitting kernels (Crystals).")
  ctx.assumptions += ["seed windows offset by VERIF_SEED"]
  pool.pmap(ctx, "vt.checks.c17", "work", items, chunk=2)
