"""C09 - Units and examples never interact: projections are per-unit, outputs per-row.

One side of every comparison is deliberately UNpacked (a column / a row alone).
"""
import itertools

import numpy as np

from vt.core import alpha, bind, pool
from vt.checks import c01, c04, c06, c07
from vt.ref import lattice as rl

ID = "C09"
LEVEL = "exploration"


# ------------------------------------------------------- constraint appliers
def _apply(kind, cfg, K):
  if kind == "lattice":
    return c01.apply_constraint(cfg, K, "constraint")
  if kind == "pwl":
    return c04.apply_constraint(cfg, K)[0]
  if kind == "linear":
    return c06.apply_linear(cfg, K)
  if kind == "cat":
    return c06.apply_cat(cfg, K)
  if kind == "kfl":
    # K columns are per-unit kernels (L*dims*terms,) ; scale part of cfg
    L, dims, terms = cfg["L"], cfg["dims"], cfg["terms"]
    U = K.shape[1]
    layer = c07.make_layer(cfg, U)
    Kun = K.T.reshape(U, L, dims, terms)
    S = np.repeat(np.array(cfg["scale"], dtype=np.float64)[None], U, axis=0)
    if cfg.get("scale_by_unit"):
      # the unit's scale sign is a function of the unit's own kernel (not of its position)
      S = S * np.where(K.sum(axis=0) >= 0, 1.0, -1.0)[:, None]
    c07.set_weights(layer, cfg, Kun, S)
    c07.apply_constraints(layer, "ks")
    K2, _ = c07.get_weights(layer, cfg)
    return K2.reshape(U, -1).T
  raise ValueError(kind)


def constraint_items(tier):
  items = []
  lat = [
      dict(sizes=[2, 2], mono=[1, 1], E=[[0, 1, 1]], T=[], comp=None, lo=-0.5, hi=0.75, iters=1),
      dict(sizes=[2, 2], mono=[1, 0], E=[], T=[[0, 1, -1]], comp=None, lo=-1.0, hi=1.0, iters=2),
      dict(sizes=[2, 2], mono=[1, 1], E=[[0, 1, 1]], T=[[0, 1, 1]], comp=None, lo=None, hi=0.5, iters=1),
      dict(sizes=[2, 2], mono=[1, 1], E=[], T=[], comp=("range_dominances", ((0, 1),)), lo=None, hi=None, iters=3),
      dict(sizes=[3], mono=[1], E=[], T=[], comp=None, lo=-0.5, hi=None, iters=1),
      dict(sizes=[2, 2, 2], mono=[1, 0, 0], E=[[0, 1, 1]], T=[[0, 2, 1]], comp=None, lo=None, hi=None, iters=10),
      dict(sizes=[2, 2, 2], mono=[1, 1, 1], E=[[0, 1, 1]], T=[[0, 1, 1]], comp=None, lo=-1.0, hi=1.0, iters=1),
      dict(sizes=[2, 3], mono=[1, 0], E=[[0, 1, 1]], T=[], comp=("unimodalities", (0, 1)), lo=-0.5, hi=0.75, iters=1),
  ]
  for c in lat:
    items.append(dict(part="constraint", kind="lattice", cfg=c))
  for kp, mono, conv, lo, hi, cmin, cmax in (
      ([0.0, 1.0, 3.0], 1, 1, 0.0, 1.0, False, False),
      ([0.0, 1.0, 2.0], -1, 0, 0.0, 1.0, True, False),
      ([0.0, 1.0, 2.0], 0, 0, -1.0, 2.0, False, False),
      ([0.0, 0.1, 1.0, 4.0], 1, -1, None, 1.0, False, False)):
    items.append(dict(part="constraint", kind="pwl", cfg=dict(
        kp=kp, mono=mono, conv=conv, lo=lo, hi=hi, cmin=cmin, cmax=cmax, iters=8,
        via="constraint", cyclic=False)))
  for mono, md, rd, norm in (([1, 1, 0], [[0, 1]], [], 1), ([1, -1, 1], [], [], 2),
                             ([-1, -1, 0], [], [[0, 1]], 1), ([1, 1, 1], [[0, 1], [1, 2]], [], None)):
    items.append(dict(part="constraint", kind="linear", cfg=dict(
        kind="linear", n=3, mono=mono, md=md, rd=rd, shift=1, norm=norm)))
  for nb, pairs, lo, hi in ((3, [[0, 1], [1, 2]], -0.5, 0.75), (4, [[0, 2], [1, 2], [2, 3]], None, None)):
    items.append(dict(part="constraint", kind="cat", cfg=dict(kind="cat", nb=nb, pairs=pairs, lo=lo, hi=hi)))
  for L, dims, terms, mono, bounds, scale, sbu in (
      (2, 2, 1, [1, 1], "both", [2.0], True), (2, 2, 1, [0, 0], "both", [-0.5], False),
      (3, 1, 2, [1], "min", [0.5, 2.0], True), (2, 1, 1, [1], "none", [-2.0], True)):
    items.append(dict(part="constraint", kind="kfl", cfg=dict(
        L=L, dims=dims, terms=terms, mono=mono, bounds=bounds, clip=True, scale=scale,
        scale_by_unit=sbu)))
  return items


def kernel_set(item):
  kind, cfg = item["kind"], item["cfg"]
  if kind == "lattice":
    n = rl.nvert(cfg["sizes"])
    K = alpha.words(alpha.A3, n)
  elif kind == "pwl":
    n = len(cfg["kp"])
    K = alpha.words(alpha.A3, n)
  elif kind == "linear":
    K = alpha.words(alpha.A3, cfg["n"])
    K = np.concatenate([K, 2.5 * K[:, 1:]], axis=1)
  elif kind == "cat":
    K = alpha.words(alpha.A3, cfg["nb"])
  else:
    e = cfg["L"] * cfg["dims"] * cfg["terms"]
    K = alpha.words((-1.0, 0.5, 2.0), e)
  if K.shape[1] > 243:
    K = K[:, :: K.shape[1] // 243 + 1]
  return K.astype(np.float32).astype(np.float64)


def constraint_case(item, ctx=None):
  kind, cfg = item["kind"], item["cfg"]
  K = kernel_set(item)
  n, N = K.shape
  tol = 1e-5
  msgs = []
  if K.shape[1] > 243:
    K = K[:, :: K.shape[1] // 243 + 1]
    N = K.shape[1]
  alone = np.concatenate([_apply(kind, cfg, K[:, c:c + 1]) for c in range(N)], axis=1)
  packed = _apply(kind, cfg, K)
  total = 2 * N
  def cmp(a, b, what, cols):
    d = np.abs(a - b).max(axis=0)
    s = np.maximum(1.0, np.abs(b).max(axis=0))
    bad = np.where(~(d <= tol * s))[0]
    if len(bad):
      c = int(bad[0])
      msgs.append("%s: column for kernel %s is %s, alone it is %s" %
                  (what, K[:, cols[c]].tolist(), np.round(a[:, c], 6).tolist(),
                   np.round(b[:, c], 6).tolist()))
      return True
    return False
  cmp(packed, alone, "all kernels packed as units", list(range(N)))
  # hostile neighbours: each kernel paired with extreme columns, both positions
  if not msgs:
    neigh = [np.zeros(n), np.full(n, 1000.0), -np.arange(n, dtype=np.float64) * 500.0, None]
    for nb in neigh:
      for pos in (0, 1):
        for c in range(N):
          other = K[:, c] if nb is None else nb
          pair = np.stack([K[:, c], other] if pos == 0 else [other, K[:, c]], axis=1)
          out = _apply(kind, cfg, pair.astype(np.float32).astype(np.float64))
          total += 1
          if cmp(out[:, pos:pos + 1], alone[:, c:c + 1], "2-unit kernel [%s neighbour at position %d]" %
                 ("self" if nb is None else nb.tolist(), 1 - pos), [c]):
            break
        if msgs:
          break
      if msgs:
        break
  # permutation equivariance
  if not msgs:
    for perm in (np.arange(N)[::-1], np.roll(np.arange(N), 7), np.argsort((np.arange(N) * 37) % N, kind="stable")):
      out = _apply(kind, cfg, K[:, perm])
      total += N
      if cmp(out, packed[:, perm], "permuting units", list(perm)):
        break
  # all ordered pairs over a small sub-alphabet (exhaustive pairs)
  if not msgs:
    sub = list(range(0, N, max(1, N // 9)))[:9]
    for a, b in itertools.product(sub, sub):
      out = _apply(kind, cfg, K[:, [a, b]])
      total += 1
      if cmp(out, alone[:, [a, b]], "ordered pair of kernels", [a, b]):
        break
  if ctx is not None:
    ctx.add(evaluations=total, nontrivial=int((np.abs(alone - K).max(axis=0) > 0).sum()), traces=total)
    ctx.tab("constraint_configs", kind)
  return "; ".join(msgs[:2]) or None


# ---------------------------------------------------------- layers / batches
def make_layers():
  """name -> (callable f(X) -> ndarray, X grid). Weights are set to fixed non-trivial values."""
  tf, tfl = bind.bind()
  import tf_keras as keras
  from tensorflow_lattice.python import conditional_cdf, conditional_pwl_calibration as cpc
  out = {}
  g = np.array([-0.5, 0.0, 0.3, 0.5, 1.0, 1.4, 2.0, 2.5])
  X2 = np.array(list(itertools.product(g[::2], g[1::2])), dtype=np.float32)
  def setk(layer, shape):
    layer.kernel.assign(((np.arange(int(np.prod(shape))) * 0.37) % 1.3 - 0.4).reshape(shape).astype(np.float32))
  # Lattice units=1 and units=2
  for interp in ("hypercube", "simplex"):
    l1 = tfl.layers.Lattice(lattice_sizes=[2, 3], interpolation=interp); l1.build((None, 2)); setk(l1, (6, 1))
    out["lattice-%s-u1" % interp] = (lambda X, l=l1: np.asarray(l(tf.constant(X))), X2)
    l2 = tfl.layers.Lattice(lattice_sizes=[2, 3], units=2, interpolation=interp); l2.build((None, 2, 2)); setk(l2, (6, 2))
    X22 = np.stack([X2, X2[::-1]], axis=1)
    out["lattice-%s-u2" % interp] = (lambda X, l=l2: np.asarray(l(tf.constant(X))), X22)
  p = tfl.layers.PWLCalibration(input_keypoints=np.array([0.0, 1.0, 2.0], dtype=np.float32), units=2,
                                impute_missing=True, missing_input_value=0.5)
  p.build((None, 1)); setk(p, (3, 2))
  out["pwl-u2-shared"] = (lambda X, l=p: np.asarray(l(tf.constant(X))), g[:, None].astype(np.float32))
  out["pwl-u2-perunit"] = (lambda X, l=p: np.asarray(l(tf.constant(X))), X2)
  c = tfl.layers.CategoricalCalibration(num_buckets=3, units=2, default_input_value=-1)
  c.build((None, 2)); setk(c, (3, 2))
  Xc = np.array(list(itertools.product([0, 1, 2, -1], repeat=2)), dtype=np.int32)
  out["categorical-u2"] = (lambda X, l=c: np.asarray(l(tf.constant(X))), Xc)
  ln = tfl.layers.Linear(num_input_dims=2, units=2, input_min=[0.0, None], input_max=[1.0, 2.0])
  ln.build((None, 2, 2)); setk(ln, (2, 2)); ln.bias.assign([0.3, -1.0])
  out["linear-u2"] = (lambda X, l=ln: np.asarray(l(tf.constant(X))), np.stack([X2, X2[::-1]], axis=1))
  k = tfl.layers.KroneckerFactoredLattice(lattice_sizes=3, units=2, num_terms=2)
  k.build(tf.TensorShape((None, 2, 2)))
  k.kernel.assign(((np.arange(3 * 4 * 2) * 0.37) % 1.3 - 0.4).reshape(1, 3, 4, 2).astype(np.float32))
  k.scale.assign([[1.0, -2.0], [0.5, 0.0]])
  out["kfl-u2"] = (lambda X, l=k: np.asarray(l(tf.constant(X))), np.stack([X2, X2[::-1]], axis=1))
  for red in ("mean", "geometric_mean", "none"):
    cd = tfl.layers.CDF(num_keypoints=3, units=2, reduction=red, sparsity_factor=2 if red != "mean" else 1,
                        input_scaling_type="learned_per_input")
    cd(tf.zeros((1, 2)))
    cd.kernel.assign(((np.arange(int(np.prod(cd.kernel.shape))) * 0.37) % 1.0).reshape(cd.kernel.shape).astype(np.float32))
    out["cdf-%s" % red] = (lambda X, l=cd: np.asarray(l(tf.constant(X))), X2)
    loc = ((np.arange(2 * 3 * 2) * 0.37) % 1.0).reshape(1, 2, 3, 2).astype(np.float32)
    def f(X, loc=loc, red=red):
      # per-example location parameters (batch-dependent): row i uses loc + 0.1*x_i0
      L = np.repeat(loc, X.shape[0], axis=0) + 0.1 * X[:, :1, None, None]
      return np.asarray(conditional_cdf.cdf_fn(tf.constant(X), tf.constant(L.astype(np.float32)), units=2,
                                               reduction=red, activation="sigmoid"))
    out["cdf_fn-%s" % red] = (f, X2)
  def pf(X):
    kout = np.stack([0.5 * X[:, 0], -X[:, 0], X[:, 0] ** 2], axis=1)[:, None, :]
    kout = np.repeat(kout, 2, axis=1).astype(np.float32)
    kin = (0.3 * X[:, :1])[:, None, :].astype(np.float32)
    return np.asarray(cpc.pwl_calibration_fn(tf.constant(X), tf.constant(kin), tf.constant(kout), units=2,
                                             keypoint_input_min=-1.0, keypoint_input_max=3.0))
  out["pwl_calibration_fn"] = (pf, g[:, None].astype(np.float32))
  # premade models
  fcs = [tfl.configs.FeatureConfig(name="a", lattice_size=3, monotonicity="increasing",
                                   pwl_calibration_input_keypoints=[0.0, 1.0, 2.0], default_value=-1.0),
         tfl.configs.FeatureConfig(name="b", lattice_size=2, monotonicity="decreasing",
                                   pwl_calibration_input_keypoints=[0.0, 0.5, 2.0]),
         tfl.configs.FeatureConfig(name="c", lattice_size=2, num_buckets=3, monotonicity=[(0, 1)])]
  Xp = np.array(list(itertools.product([-1.0, 0.2, 1.1, 2.5], [0.0, 0.7, 3.0], [0, 1, 2])), dtype=np.float32)
  def wrap(model):
    ws = model.get_weights()
    model.set_weights([w + 0.05 * ((np.arange(w.size) * 0.37) % 1.0).reshape(w.shape) for w in ws])
    return lambda X, m=model: np.asarray(m([tf.constant(X[:, 0:1]), tf.constant(X[:, 1:2]),
                                            tf.constant(X[:, 2:3].astype(np.int32))]))
  ml = tfl.premade.CalibratedLattice(tfl.configs.CalibratedLatticeConfig(
      feature_configs=fcs, output_min=0.0, output_max=1.0, output_initialization=[0.0, 1.0]))
  out["premade-calibrated-lattice"] = (wrap(ml), Xp)
  mn = tfl.premade.CalibratedLinear(tfl.configs.CalibratedLinearConfig(
      feature_configs=fcs, output_initialization=[0.0, 1.0]))
  out["premade-calibrated-linear"] = (wrap(mn), Xp)
  me = tfl.premade.CalibratedLatticeEnsemble(tfl.configs.CalibratedLatticeEnsembleConfig(
      feature_configs=fcs, lattices=[["a", "b"], ["b", "c"], ["a", "c"]], output_initialization=[0.0, 1.0]))
  out["premade-ensemble"] = (wrap(me), Xp)
  return out


_LAYERS = {}


def batch_case(item, ctx=None):
  name = item["name"]
  if not _LAYERS:
    _LAYERS.update(make_layers())
  f, X = _LAYERS[name]
  G = X.shape[0]
  full = f(X)
  msgs = []
  total = G
  def same(a, b):
    return a.shape == b.shape and np.all(np.abs(a - b) <= 1e-6 * np.maximum(1.0, np.abs(b)))
  rows = [f(X[i:i + 1]) for i in range(G)]
  total += G
  for i in range(G):
    if not same(full[i:i + 1], rows[i]):
      msgs.append("row %d (%s): %s inside the full batch, %s alone" %
                  (i, X[i].tolist(), full[i].tolist(), rows[i][0].tolist()))
      break
  if not msgs and not same(f(X[::-1].copy())[::-1], full):
    msgs.append("reversing the batch changes per-example outputs")
  if not msgs and not same(f(X[::2].copy()), full[::2]):
    msgs.append("dropping rows changes the remaining outputs")
  total += 2 * G
  if not msgs:
    sub = list(range(0, G, max(1, G // 8)))[:8]
    for i, j in itertools.product(sub, sub):
      o = f(X[[i, j]])
      total += 2
      if not (same(o[0:1], rows[i]) and same(o[1:2], rows[j])):
        msgs.append("ordered pair of rows (%d,%d): %s, alone %s / %s" %
                    (i, j, o.tolist(), rows[i].tolist(), rows[j].tolist()))
        break
  if ctx is not None:
    ctx.add(evaluations=total, nontrivial=total - 1, traces=total)
    ctx.tab("batch_configs", name)
  return "; ".join(msgs) or None


def unit_case(item, ctx=None):
  """Output of unit u depends only on unit u's parameters and inputs."""
  tf, tfl = bind.bind()
  name = item["name"]
  msgs = []
  g = np.array([-0.5, 0.0, 0.4, 1.0, 1.6, 2.0], dtype=np.float32)
  X2 = np.array(list(itertools.product(g, g)), dtype=np.float32)
  def mk():
    if name == "lattice":
      l = tfl.layers.Lattice(lattice_sizes=[3, 2], units=3, interpolation=item.get("interp", "hypercube"))
      l.build((None, 3, 2)); return l, (6, 3), 2
    if name == "pwl":
      l = tfl.layers.PWLCalibration(input_keypoints=np.array([0.0, 1.0, 2.0], dtype=np.float32), units=3)
      l.build((None, 3)); return l, (3, 3), 1
    if name == "categorical":
      l = tfl.layers.CategoricalCalibration(num_buckets=3, units=3)
      l.build((None, 3)); return l, (3, 3), 1
    if name == "linear":
      l = tfl.layers.Linear(num_input_dims=2, units=3)
      l.build((None, 3, 2)); return l, (2, 3), 2
    l = tfl.layers.KroneckerFactoredLattice(lattice_sizes=3, units=3, num_terms=2)
    l.build(tf.TensorShape((None, 3, 2))); return l, None, 2
  layer, kshape, d = mk()
  U = 3
  if d == 2:
    X = np.stack([X2, X2[::-1], np.roll(X2, 5, axis=0)], axis=1)  # (G, U, 2)
  else:
    X = np.stack([X2[:, 0], X2[:, 1], X2[::-1, 0]], axis=1)        # (G, U)
  if name == "categorical":
    X = (np.abs(X * 2).astype(np.int32)) % 3
  def kernel(seedv):
    if name == "kfl":
      k = ((np.arange(3 * U * 2 * 2) * 0.37 + seedv) % 1.3 - 0.4).reshape(3, U, 2, 2)
      return k
    return ((np.arange(int(np.prod(kshape))) * 0.37 + seedv) % 1.3 - 0.4).reshape(kshape)
  def setk(k, s=None):
    if name == "kfl":
      layer.kernel.assign(k.reshape(1, 3, U * 2, 2).astype(np.float32))
      layer.scale.assign(s.astype(np.float32))
    else:
      layer.kernel.assign(k.astype(np.float32))
  k0 = kernel(0.0)
  s0 = np.array([[1.0, -2.0], [0.5, 0.0], [-1.0, 3.0]])
  setk(k0, s0)
  base = np.asarray(layer(tf.constant(X)))
  total = base.size
  for u in range(U):
    k1 = kernel(0.61)
    s1 = -s0 + 0.3
    Xo = (X[::-1].copy() if name != "categorical" else (X[::-1] + 1) % 3)
    if name == "kfl":
      k1[:, u] = k0[:, u]; s1[u] = s0[u]
    else:
      k1[:, u] = k0[:, u]
    if d == 2:
      Xo[:, u, :] = X[:, u, :]
    else:
      Xo[:, u] = X[:, u]
    setk(k1, s1)
    o = np.asarray(layer(tf.constant(Xo)))
    total += o.shape[0]
    if not np.all(np.abs(o[:, u] - base[:, u]) <= 1e-6 * np.maximum(1, np.abs(base[:, u]))):
      r = int(np.argmax(np.abs(o[:, u] - base[:, u])))
      msgs.append("%s: output of unit %d changes from %.6g to %.6g when only OTHER units' "
                  "parameters/inputs change" % (name, u, base[r, u], o[r, u]))
      break
  if ctx is not None:
    ctx.add(evaluations=total, nontrivial=total - 1, traces=total)
    ctx.tab("unit_configs", name)
  return "; ".join(msgs) or None


def replay(case):
  return _dispatch(case, None)


def _dispatch(item, ctx):
  if item["part"] == "constraint":
    return constraint_case(item, ctx)
  if item["part"] == "batch":
    return batch_case(item, ctx)
  return unit_case(item, ctx)


def work(ctx, item):
  msg = _dispatch(item, ctx)
  ctx.sample({k: v for k, v in item.items()}, limit=6)
  if msg:
    sig = dict(part=item["part"], kind=item.get("kind", item.get("name")))
    ctx.violation(sig, item, msg)


BATCH_NAMES = ["lattice-hypercube-u1", "lattice-hypercube-u2", "lattice-simplex-u1",
               "lattice-simplex-u2", "pwl-u2-shared", "pwl-u2-perunit", "categorical-u2",
               "linear-u2", "kfl-u2", "cdf-mean", "cdf-geometric_mean", "cdf-none", "cdf_fn-mean",
               "cdf_fn-geometric_mean", "cdf_fn-none", "pwl_calibration_fn",
               "premade-calibrated-lattice", "premade-calibrated-linear", "premade-ensemble"]


def run(ctx):
  items = constraint_items(ctx.tier)
  items += [dict(part="batch", name=n) for n in BATCH_NAMES]
  items += [dict(part="unit", name=n) for n in ("lattice", "pwl", "categorical", "linear", "kfl")]
  items.append(dict(part="unit", name="lattice", interp="simplex"))
  items = alpha.rotate(items, ctx.seed)
  ctx.rule = (
      "constraints (Lattice coupled configs with trusts+bounds, PWL bounds scaling, Linear "
      "normalisation/dominance, Categorical, KFL bound root): for a kernel set K (all of {-1,0,1}^n "
      "or a 243-stride subset) every kernel ALONE (units=1) vs all packed, vs 2-unit kernels with "
      "hostile neighbours in both positions, vs permutations, and ALL ordered pairs over a "
      "9-kernel sub-alphabet; layer outputs: unit u unchanged when all other units' parameters and "
      "inputs are replaced; every layer kind, CDF, cdf_fn, pwl_calibration_fn and three premade "
      "models: each row alone vs inside the batch, reversed, thinned, all ordered row pairs over 8 "
      "rows. Non-trivial = kernel changed by the projection / row evaluated in a different batch.")
  ctx.assumptions += ["float32; equality up to 1e-5 relative (constraints) / 1e-6 (outputs)"]
  pool.pmap(ctx, "vt.checks.c09", "work", items, chunk=1)
