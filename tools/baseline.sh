#!/bin/bash
# Runs the pinned test-suite of /repo (guard off) and compares with BASELINE.json's stable_pass list.
out=${1:-/tmp/vt_baseline}
mkdir -p "$out"
cd /repo && env -u TENSORFLOW_LATTICE_VERIF /venv/bin/python -m pytest -ra -q -p no:cacheprovider --timeout=900 \
  --continue-on-collection-errors --junitxml="$out/junit.xml" > "$out/pytest.log" 2>&1
python3 - "$out" <<'PY'
import json, sys, xml.etree.ElementTree as ET
out = sys.argv[1]
b = json.load(open('/root/.vp/BASELINE.json'))
stable = set(b['stable_pass'])
passed = set()
for tc in ET.parse(out + '/junit.xml').getroot().iter('testcase'):
    name = tc.get('classname') + '::' + tc.get('name')
    if not any(ch.tag in ('failure', 'error', 'skipped') for ch in tc):
        passed.add(name)
missing = sorted(stable - passed)
print('stable tests: %d, passed now: %d, stable-but-not-passing: %d' % (len(stable), len(stable & passed), len(missing)))
for m in missing[:40]:
    print('  MISSING', m)
open(out + '/summary.txt', 'w').write('\n'.join(missing))
PY
