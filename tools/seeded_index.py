#!/usr/bin/env python3
"""Materialises /verif/seeded/<id>-<n>/ from an input directory of sub-agent deliverables and
evaluation results:  tools/seeded_index.py /tmp/seedin

Each seeded change gets patch.diff, demo.py (+ helper modules), meta.json; seeded/INDEX.md is rewritten."""
import glob, json, os, shutil, sys
HERE = os.path.dirname(os.path.dirname(os.path.abspath(__file__)))
src = sys.argv[1]
rows = []
for pdir in sorted(glob.glob(os.path.join(src, "C*"))):
  pid = os.path.basename(pdir)
  try:
    meta = json.load(open(os.path.join(pdir, "meta.json")))
  except Exception:
    meta = {"changes": []}
  for n in (1, 2):
    diff = os.path.join(pdir, "change%d.diff" % n)
    if not os.path.exists(diff):
      continue
    out = os.path.join(HERE, "seeded", "%s-%d" % (pid, n))
    os.makedirs(out, exist_ok=True)
    shutil.copy(diff, os.path.join(out, "patch.diff"))
    shutil.copy(os.path.join(pdir, "demo%d.py" % n), os.path.join(out, "demo.py"))
    for f in glob.glob(os.path.join(pdir, "_*.py")):
      shutil.copy(f, out)
    orig = os.path.join(pdir, "change%d.orig_head.diff" % n)
    if os.path.exists(orig):
      shutil.copy(orig, os.path.join(out, "patch.orig_head.diff"))
    ch = meta.get("changes", [])
    info = ch[n - 1] if len(ch) >= n else {}
    evals = {}
    for tag in ("eval", "evalb", "evalc", "tests"):
      f = os.path.join(pdir, "%s%d.json" % (tag, n))
      if os.path.exists(f):
        try:
          txt = open(f).read()
          evals[tag] = json.loads(txt[txt.index("{"):])
        except Exception:
          evals[tag] = {"raw": open(f).read()[-400:]}
    prop = pid[:3]
    t = evals.get("tests") or {}
    m = dict(property=prop, wave=2 if pid.endswith("b") else 1, breaks=info.get("breaks"), needs=info.get("needs"),
             note=info.get("note"), author_tests_run=info.get("tests_run"),
             confirmed=dict(
                 how="tools/seeded.py: scratch copy of /repo, demo on the clean copy (exit 0), git apply, demo "
                     "again (exit != 0), then ./check %s --tier quick with VT_REPO=<scratch>; tools/pinned.py: "
                     "the 281 pinned test ids run in a scratch copy with the patch applied" % prop,
                 pinned_tests="%s/%s pinned tests pass with the patch%s" % (
                     t.get("passed"), t.get("pinned"), "" if not t.get("missing") else " MISSING " + ",".join(t["missing"])),
                 first_evaluation=evals.get("eval"), after_strengthening=evals.get("evalb"),
                 final_check=evals.get("evalc")))
    json.dump(m, open(os.path.join(out, "meta.json"), "w"), indent=1)
    e1 = evals.get("eval", {})
    e2 = evals.get("evalb", {})
    def verdict(e):
      ks = [k for k in e if k.startswith("check_") and not k.endswith("_first")]
      return ", ".join("%s %s" % (k[6:], e[k].split()[0]) for k in ks) or "-"
    v1, v2 = verdict(e1), verdict(e2)
    e3 = evals.get("evalc", {})
    if prop == "C08" and (pid != "C08" or e2):
      # between commits ca63670 and 8ee82e8 C08 alarmed on the unchanged tree (DESIGN.md 8.4 item 12):
      # verdicts of that period are void, only the run against the corrected check counts
      if pid != "C08":
        v1 = "void (C08 was alarming on the unchanged tree)"
      v2 = verdict(e3) + " (corrected check)" if e3 else "void"
    elif e3:
      v2 = (v2 + " / " if v2 != "-" else "") + "final check: " + verdict(e3)
    if "BEFORE the first recorded evaluation" in (info.get("note") or ""):
      v1, v2 = "not run on the earlier check (outside its bound, see meta.json)", v1
    rows.append((pid, n, (info.get("needs") or "")[:110].replace("|", "/"), e1.get("demo_clean_exit"),
                 e1.get("demo_patched_exit"), "%s/%s" % (t.get("passed"), t.get("pinned")), v1, v2))
def _det(v):
  return "DETECTED" in v or "VIOLATION" in v
waves = {}
for pid, n, needs, c0, c1, tt, v1, v2 in rows:
  w = {"b": 2, "c": 3, "d": 4}.get(pid[3:4], 1)
  d = waves.setdefault(w, dict(total=0, first=0, later=0, missed=[]))
  d["total"] += 1
  if _det(v1):
    d["first"] += 1
  elif _det(v2):
    d["later"] += 1
  else:
    d["missed"].append("%s-%d" % (pid, n))
summary = ["| wave | changes | detected at first evaluation | detected after strengthening | not detected |", "|---|---|---|---|---|"]
for w in sorted(waves):
  d = waves[w]
  summary.append("| %d | %d | %d | %d | %s |" % (w, d["total"], d["first"], d["later"], ", ".join(d["missed"]) or "0"))
out = ["# Seeded changes written by independent sub-agents (property text only)", ""] + summary + ["",
       "Ids ending in 'b', 'c', 'd' are the second, third and fourth wave (each wave was told which patterns",
       "the earlier waves had used and asked for something different).",
       "Each row was confirmed in a scratch copy of /repo: demo exits 0 without and non-zero with the patch,",
       "and the 281 pinned tests still pass with it. To re-run: git -C /repo apply seeded/<id>/patch.diff;",
       "./check <property> --tier quick; git -C /repo checkout -- .", "",
       "| id | what it needs to manifest | demo clean/patched exit | pinned tests with patch | first evaluation | after strengthening |", "|---|---|---|---|---|---|"]
for pid, n, needs, c0, c1, tt, v1, v2 in rows:
  out.append("| %s-%d | %s | %s / %s | %s | %s | %s |" % (pid, n, needs, c0, c1, tt, v1, v2))
open(os.path.join(HERE, "seeded", "INDEX.md"), "w").write("\n".join(out) + "\n")
print("%d seeded changes indexed" % len(rows))
