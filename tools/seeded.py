#!/usr/bin/env python3
"""Evaluates one seeded change (a git diff against /repo HEAD):

  tools/seeded.py <patch.diff> <demo.py> [--checks C01,C09] [--tier quick] [--tests mod1_test.py,mod2_test.py]

1. scratch copy of /repo (rsync, outside /repo and /verif), 2. demo on the clean copy must pass,
3. apply the patch, demo must fail, 4. optional pinned tests of the named modules must still pass,
5. the named checks are run with VT_REPO=<scratch>; prints DETECTED / silent per check. The scratch
copy is removed afterwards. Nothing here is used by MANIFEST commands.
"""
import json
import os
import shutil
import subprocess
import sys
import tempfile
import time

HERE = os.path.dirname(os.path.dirname(os.path.abspath(__file__)))


def sh(cmd, cwd=None, env=None, timeout=7200):
  r = subprocess.run(cmd, cwd=cwd, env=env, capture_output=True, text=True, timeout=timeout)
  return r.returncode, r.stdout, r.stderr


def main():
  a = sys.argv[1:]
  patch, demo = os.path.abspath(a[0]), os.path.abspath(a[1])
  checks = a[a.index("--checks") + 1].split(",") if "--checks" in a else []
  tier = a[a.index("--tier") + 1] if "--tier" in a else "quick"
  tests = a[a.index("--tests") + 1].split(",") if "--tests" in a else []
  d = tempfile.mkdtemp(prefix="vt_seed_")
  res = {}
  try:
    subprocess.check_call(["rsync", "-a", "--exclude", ".git", "--exclude", "__pycache__", "--exclude", "_seeded",
                           "--exclude", "*.egg-info", "/repo/", d + "/"])
    os.makedirs(d + "/_seeded", exist_ok=True)
    for f in os.listdir(os.path.dirname(demo)):   # demos may import helper modules next to them
      if f.endswith(".py"):
        shutil.copy(os.path.join(os.path.dirname(demo), f), d + "/_seeded/" + f)
    shutil.copy(demo, d + "/_seeded/demo.py")
    env = dict(os.environ, TF_CPP_MIN_LOG_LEVEL="3", CUDA_VISIBLE_DEVICES="", PYTHONDONTWRITEBYTECODE="1",
               PYTHONPATH=d)
    c0, o0, e0 = sh(["/venv/bin/python", "_seeded/demo.py"], cwd=d, env=env)
    res["demo_clean_exit"] = c0
    c, o, e = sh(["git", "apply", "--unsafe-paths", "--directory=" + d, patch], cwd="/")
    if c != 0:
      c, o, e = sh(["patch", "-p1", "-i", patch], cwd=d)
    res["patch_applied"] = (c == 0)
    if c != 0:
      print("PATCH DID NOT APPLY", o[-300:], e[-300:])
    c1, o1, e1 = sh(["/venv/bin/python", "_seeded/demo.py"], cwd=d, env=env)
    res["demo_patched_exit"] = c1
    res["demo_patched_tail"] = (o1 + e1)[-400:]
    if tests:
      b = json.load(open("/root/.vp/BASELINE.json"))
      stable = set(b["stable_pass"])
      for t in tests:
        junit = d + "/junit_%s.xml" % t.replace("/", "_")
        sh(["/venv/bin/python", "-m", "pytest", "-q", "-p", "no:cacheprovider", "--timeout=900",
            "tensorflow_lattice/python/" + t, "--junitxml=" + junit], cwd=d, env=env)
        import xml.etree.ElementTree as ET
        passed = set()
        for tc in ET.parse(junit).getroot().iter("testcase"):
          n = tc.get("classname") + "::" + tc.get("name")
          if not any(ch.tag in ("failure", "error", "skipped") for ch in tc):
            passed.add(n)
        mod = "tensorflow_lattice.python." + t[:-3]
        want = set(s for s in stable if s.startswith(mod + "."))
        res["tests_" + t] = "%d/%d pinned pass" % (len(want & passed), len(want))
        if want - passed:
          res["tests_" + t] += " MISSING " + ",".join(sorted(want - passed))[:300]
    outdir = tempfile.mkdtemp(prefix="vt_out_")
    try:
      for pid in checks:
        env2 = dict(os.environ, VT_REPO=d, VT_OUT=outdir)
        t = time.time()
        c, o, e = sh([os.path.join(HERE, "check"), pid, "--tier", tier], cwd=HERE, env=env2)
        viol = [l for l in o.splitlines() if l.startswith("VIOLATION")]
        res["check_" + pid] = ("DETECTED" if c == 1 and viol else "silent" if c == 0 else "ERROR%d" % c) + " %.0fs" % (time.time() - t)
        if viol:
          idx = o.splitlines().index(viol[0])
          res["check_%s_first" % pid] = " | ".join(o.splitlines()[idx:idx + 2])[:500]
    finally:
      shutil.rmtree(outdir, ignore_errors=True)
  finally:
    shutil.rmtree(d, ignore_errors=True)
  print(json.dumps(res, indent=1))


if __name__ == "__main__":
  main()
