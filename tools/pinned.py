#!/usr/bin/env python3
"""Runs exactly the pinned (BASELINE.json stable_pass) test ids in a given tree and reports
which of them do not pass:  tools/pinned.py <tree> [out.json]

Used to confirm that a seeded change keeps the existing suite green (tools/baseline.sh runs the
whole suite of /repo instead)."""
import json, os, subprocess, sys, tempfile
import xml.etree.ElementTree as ET
tree = os.path.abspath(sys.argv[1])
b = json.load(open('/root/.vp/BASELINE.json'))
stable = sorted(b['stable_pass'])
ids = []
for s in stable:
  mod_cls, name = s.split('::')
  mod, cls = mod_cls.rsplit('.', 1)
  ids.append('%s.py::%s::%s' % (mod.replace('.', '/'), cls, name))
tmp = tempfile.mkdtemp(prefix='vt_pinned_')
env = dict(os.environ)
env.pop('TENSORFLOW_LATTICE_VERIF', None)
env['PYTHONPATH'] = tree
env['CUDA_VISIBLE_DEVICES'] = ''
r = subprocess.run(['/venv/bin/python', '-m', 'pytest', '-q', '-p', 'no:cacheprovider', '--timeout=900',
                    '--junitxml=' + tmp + '/junit.xml'] + ids, cwd=tree, env=env,
                   stdout=subprocess.PIPE, stderr=subprocess.STDOUT)
passed = set()
try:
  for tc in ET.parse(tmp + '/junit.xml').getroot().iter('testcase'):
    if not any(ch.tag in ('failure', 'error', 'skipped') for ch in tc):
      passed.add(tc.get('classname') + '::' + tc.get('name'))
except Exception as e:  # pylint: disable=broad-except
  print('no junit output: %s\n%s' % (e, r.stdout.decode()[-800:]))
missing = sorted(set(stable) - passed)
res = dict(tree=tree, pinned=len(stable), passed=len(set(stable) & passed), missing=missing)
print(json.dumps(res)[:2000])
if len(sys.argv) > 2:
  json.dump(res, open(sys.argv[2], 'w'), indent=1)
subprocess.run(['rm', '-rf', tmp])
sys.exit(1 if missing else 0)
