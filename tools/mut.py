#!/usr/bin/env python3
"""Mutation driver: applies one textual mutant to a scratch copy of /repo and runs checks.

  tools/mut.py list
  tools/mut.py run <name|all|prefix*> [--tier quick] [--checks C01,C02]

Mutants live in mutants/catalog.py as dicts(name, file, old, new, checks, note).
The scratch copy lives under /tmp/vt_mut_<pid>/ and is removed afterwards.
Nothing here is used by MANIFEST commands.
"""
import fnmatch
import importlib.util
import json
import os
import shutil
import subprocess
import sys
import tempfile
import time

HERE = os.path.dirname(os.path.dirname(os.path.abspath(__file__)))


def catalog():
  spec = importlib.util.spec_from_file_location("catalog", os.path.join(HERE, "mutants", "catalog.py"))
  m = importlib.util.module_from_spec(spec)
  spec.loader.exec_module(m)
  return m.MUTANTS


def make_copy():
  d = tempfile.mkdtemp(prefix="vt_mut_")
  subprocess.check_call(["rsync", "-a", "--exclude", ".git", "--exclude", "__pycache__",
                         "--exclude", "*.egg-info", "/repo/", d + "/"])
  return d


def apply(root, m):
  p = os.path.join(root, m["file"])
  s = open(p).read()
  cnt = s.count(m["old"])
  if cnt != m.get("count", 1):
    raise SystemExit("mutant %s: pattern occurs %d times (expected %d)" % (m["name"], cnt, m.get("count", 1)))
  s = s.replace(m["old"], m["new"])
  open(p, "w").write(s)


OUT = tempfile.mkdtemp(prefix="vt_out_")


def run_check(root, pid, tier):
  env = dict(os.environ)
  env["VT_REPO"] = root
  env["VT_OUT"] = OUT
  t = time.time()
  r = subprocess.run([os.path.join(HERE, "check"), pid, "--tier", tier], env=env,
                     capture_output=True, text=True, cwd=HERE)
  viol = [l for l in r.stdout.splitlines() if l.startswith("VIOLATION")]
  return r.returncode, len(viol), time.time() - t, r.stdout[-1500:] + r.stderr[-500:]


def main():
  args = sys.argv[1:]
  if not args or args[0] == "list":
    for m in catalog():
      print("%-40s %-45s %s" % (m["name"], m["file"].split("/")[-1], ",".join(m["checks"])))
    return
  pat = args[1]
  tier = "quick"
  only = None
  if "--tier" in args:
    tier = args[args.index("--tier") + 1]
  if "--checks" in args:
    only = args[args.index("--checks") + 1].split(",")
  muts = [m for m in catalog() if pat == "all" or fnmatch.fnmatch(m["name"], pat)]
  rows = []
  try:
    for m in muts:
      root = make_copy()
      try:
        apply(root, m)
        for pid in (only or m["checks"]):
          code, nv, dt, tail = run_check(root, pid, tier)
          verdict = "DETECTED" if code == 1 and nv else ("silent" if code == 0 else "ERROR(%d)" % code)
          expect = m.get("expect", "DETECTED")
          print("%-40s %-4s %-9s (expected %s) %5.0fs" % (m["name"], pid, verdict, expect, dt))
          if verdict != expect:
            print(tail)
          rows.append((m["name"], pid, verdict, expect))
          sys.stdout.flush()
      finally:
        shutil.rmtree(root, ignore_errors=True)
  finally:
    shutil.rmtree(OUT, ignore_errors=True)
  bad = [r for r in rows if r[2] != r[3]]
  print("mutants run: %d, unexpected: %d" % (len(rows), len(bad)))


if __name__ == "__main__":
  main()
