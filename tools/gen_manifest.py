#!/usr/bin/env python3
"""Generates /verif/MANIFEST.json from the table below (single source of truth)."""
import json
import os

HERE = os.path.dirname(os.path.dirname(os.path.abspath(__file__)))

MC = "model_checking"
EX = "exploration"

# id -> (category, technique, text, note, design_ref)
CHECKS = {
    "C01": (MC,
            "bounded exhaustive enumeration (all {-1,0,1}^n kernels x affine images x all "
            "small constraint configurations, packed through the real LatticeConstraints) "
            "+ explicit-state BFS over perturb/project chains",
            "Every kernel word over the alphabet (and 4 affine images) for every enumerated "
            "lattice configuration (ranks 1-3, sizes 2-3(4), all monotonicity vectors, all valid "
            "sets of <=2 (thorough 3) trusts, companion approximate families, 5 bound modes, "
            "iterations incl. 0) is pushed through the real constraint / layer.finalize_constraints "
            "and judged against an independent inequality-matrix model; BFS chains of "
            "perturb->project re-check the invariant and the fixpoint property in every reached state.",
            "float32 eager CPU; tolerance 1e-4*max(1,|w|,|bounds|); NumPy reference model of the "
            "inequalities is trusted; nothing outside the alphabet images / ranks>3 is covered",
            "3/C01"),
}

NOT_YET = {}


def main():
  props = [json.loads(l) for l in open(os.path.join(HERE, "properties.jsonl"))]
  checks, na = [], []
  for p in props:
    pid = p["id"]
    if pid in CHECKS:
      cat, tech, text, note, ref = CHECKS[pid]
      checks.append(dict(
          property_id=pid,
          quick_cmd="./check %s --tier quick" % pid,
          thorough_cmd="./check %s --tier thorough" % pid,
          evidence_file="evidence/%s.json" % pid,
          replay_cmd_template="./check %s --replay {path}" % pid,
          engine="vt",
          level_claimed=dict(category=cat, text=text, design_ref="DESIGN.md section " + ref),
          level_note=note,
          technique=tech))
    else:
      na.append(dict(property_id=pid, reason=NOT_YET.get(
          pid, "check not built yet in this session (planned: see DESIGN.md section 3/%s); "
          "the technique applies" % pid)))
  man = dict(
      version=1,
      setup_cmd="cd /verif && chmod +x check && /venv/bin/python -c \"import numpy, scipy\" && "
                "PYTHONPATH=/verif /venv/bin/python -m compileall -q vt >/dev/null",
      hooks=dict(
          guard="TENSORFLOW_LATTICE_VERIF",
          enable="no source hooks are needed: checks import tensorflow_lattice from /repo's working "
                 "tree in a fresh process (./check exports TENSORFLOW_LATTICE_VERIF=1, nothing reads it)",
          baseline_off_cmd="cd /repo && /venv/bin/python -m pytest -ra -q -p no:cacheprovider "
                           "--timeout=900 --continue-on-collection-errors",
          source_commits=[],
          add_only=True),
      engines=[dict(
          name="vt", path="vt/",
          serves_properties=[c["property_id"] for c in checks],
          kind_free_text="hand-written bounded exhaustive explorer for Python: E1 product-space "
                         "enumerator with unit-axis packing and E2 explicit-state BFS over real "
                         "transition functions; NumPy float64 reference models")],
      checks=checks,
      not_applicable=na,
      notes="All checks drive the real code of /repo (or $VT_REPO for the mutation driver). "
            "Known genuine defects are listed in KNOWN_FINDINGS.txt; see DESIGN.md.")
  with open(os.path.join(HERE, "MANIFEST.json"), "w") as fh:
    json.dump(man, fh, indent=1)
  print("MANIFEST.json: %d checks, %d not_applicable" % (len(checks), len(na)))


if __name__ == "__main__":
  main()
