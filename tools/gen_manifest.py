#!/usr/bin/env python3
"""Generates /verif/MANIFEST.json from the table below (single source of truth)."""
import json
import os

HERE = os.path.dirname(os.path.dirname(os.path.abspath(__file__)))

MC = "model_checking"
EX = "exploration"

# id -> (category, technique, text, note, design_ref)
CHECKS = {
    "C01": (MC,
            "bounded exhaustive enumeration (all {-1,0,1}^n kernels x affine images x all "
            "small constraint configurations, packed through the real LatticeConstraints) "
            "+ explicit-state BFS over perturb/project chains",
            "Every kernel word over the alphabet (and 4 affine images) for every enumerated "
            "lattice configuration (ranks 1-3, sizes 2-3(4), all monotonicity vectors, all valid "
            "sets of <=2 (thorough 3) trusts, companion approximate families, 5 bound modes, "
            "iterations incl. 0) is pushed through the real constraint / layer.finalize_constraints "
            "and judged against an independent inequality-matrix model; BFS chains of "
            "perturb->project re-check the invariant and the fixpoint property in every reached state.",
            "float32 eager CPU; tolerance 1e-4*max(1,|w|,|bounds|); NumPy reference model of the "
            "inequalities is trusted; nothing outside the alphabet images / ranks>3 is covered",
            "3/C01"),
    "C02": (EX,
            "bounded exhaustive enumeration: basis kernels packed as units x full cartesian input grid "
            "through the real Lattice layer, compared with an independent interpolation model",
            "For 11 (thorough 18) lattice shapes incl. the all-2 fast path, mixed sizes, runs of equal "
            "sizes and rank>=8 (matmul path), both schemes, tensor/list inputs, clip on/off, extra "
            "batch dim, units 1/2/n: the complete interpolation-weight matrix on the full grid equals "
            "the reference; partition of unity, non-negativity, exact vertices, scheme agreement on "
            "vertices/edges; inheritance clauses on real outputs for ALL monotone / Edgeworth-feasible "
            "words of {-1,0,1}^n.",
            "float32; linearity in the kernel (by construction of the code) reduces all kernels to a "
            "basis plus separately checked units=1 kernels; ranks>9 / sizes>5 not covered",
            "3/C02"),
    "C04": (EX,
            "bounded exhaustive enumeration of all kernel words x all small PWL configurations "
            "through the real PWLCalibrationConstraints / layer constraint",
            "Keypoint vectors (uniform/non-uniform, 2-5 points) x monotonicity x convexity x 5 bound "
            "modes x clamps x cyclic x iterations {0,1,2,8,(32,100)} x {constraint object, layer}: ALL "
            "words of {-2,-1,0,.5,1,3}^n (+images) are projected and judged (exact monotone sign, "
            "bounds, convexity, clamps, unchanged-if-feasible); NaiveBoundsConstraints for the missing output.",
            "float32; tolerated relaxations of the property are not checked; kernels outside the alphabet images not covered",
            "3/C04"),
    "C05": (EX,
            "bounded exhaustive enumeration of calibrator configurations x basis/word kernels x input "
            "points against np.interp / row-lookup reference",
            "PWLCalibration: keypoint vectors x cyclic x 5 missing modes x shared/per-unit inputs x "
            "split, every keypoint/midpoint/outside/missing input; learned interior keypoints for all "
            "logit words; keypoints_inputs/outputs agreement. CategoricalCalibration: buckets x units x "
            "default value x layouts x dtypes x all category tuples.",
            "float32 relative tolerance 1e-4; linear in the kernel, so basis + word kernels decide all kernels",
            "3/C05"),
    "C06": (EX,
            "bounded exhaustive enumeration: all acyclic dominance/ordering graphs on <=3(4) nodes x "
            "all monotonicity vectors x norms x all weight words through the real constraints",
            "Linear: every monotonicity vector, every DAG of monotonic dominance on increasing inputs, "
            "every DAG of range dominance on same-direction inputs (3 range assignments), norm "
            "{None,1,2}; Categorical: every DAG of pairs on 2-4 buckets x bounds; weights = all words of "
            "{-2,-1,0,.5,1,3}^n + images down to 1e-9 (numerically-zero clause).",
            "float32; <=4 inputs/buckets",
            "3/C06"),
    "C07": (MC,
            "bounded exhaustive enumeration (all kernel x scale words packed as units through the real "
            "constraints + real layer evaluation) + explicit-state BFS over update/constraint orders",
            "KFL: lattice_sizes {2,3} x dims 1-3 x terms 1-2 x every monotonicity subset x bounds "
            "{none,min,max,both} x clip_inputs; per unit all kernel words over {-1,0,.5,2}^e and all scale "
            "words over {-2,-.5,0,.5,2}^terms, both constraint orders, output judged on the full input grid; "
            "BFS (depth 3/4) over raw perturbations, kernel constraint, scale constraint, finalize_constraints "
            "from constructed and hostile states with the invariant evaluated in every settled state and "
            "replay of histories on a fresh layer.",
            "float32; tolerance 5e-4*max(1,|out|) (+1e-5*|w| after finalize_constraints' assign_add cancellation); "
            "reduced kernel alphabets for >6 entries per unit (reported in evidence tables)",
            "3/C07"),
    "C08": (MC,
            "trajectory exploration of the real Dykstra iteration (N=1,10,100,1000) for all {-1,0,1}^n "
            "start kernels x all single/paired families, judged against an exact active-set projection",
            "Every family and every valid pair on [2,2],[2,3],[3,2],[3,3],[2,2,2]: feasible kernels fixed, "
            "largest violation decays, converged result idempotent, limit equals the exact Euclidean projection "
            "(exhaustive active-set enumeration / Hildreth in float64) for the families the property lists, strict "
            "layer constraint stays close; PWL project_all_constraints likewise.",
            "float32; limit observed at N=1000 with tolerance 3e-3*max(1,|w|) for distance-to-nearest; long runs traced "
            "with tf.function (the library's own tf.while_loop), units=1 path checked in eager mode",
            "3/C08"),
    "C09": (EX,
            "bounded exhaustive comparison of packed vs alone (units) and batched vs alone (rows) on the real code",
            "Each constraint kind in its most coupled configurations: every kernel alone vs all packed, vs hostile "
            "2-unit neighbours in both positions, permutations, all ordered pairs over a sub-alphabet; unit u's output "
            "unchanged when other units' parameters/inputs are replaced; every layer kind, CDF, cdf_fn, "
            "pwl_calibration_fn and three premade models: rows alone vs batched, reversed, thinned, all ordered row pairs.",
            "float32 equality up to 1e-5/1e-6 relative",
            "3/C09"),
    "C10": (EX,
            "bounded exhaustive enumeration of layer configurations x initializer ids x seed windows on freshly built real layers",
            "Lattice (shapes up to rank 3/size 4, every per-dimension {free,monotone,valley,peak} assignment, 7 bound modes, 3 "
            "initializer ids, joint unimodalities, explicit init range), PWL (equal_heights/equal_slopes), KFL and "
            "CategoricalCalibration: closed forms from the docstrings, reference inequalities, own assert_constraints, "
            "constraint is a no-op on the initial kernel.",
            "seed window [seed*K, seed*K+K) for random initializers; float32 tolerance 1e-5",
            "3/C10"),
    "C12": (EX,
            "bounded exhaustive enumeration of weight tensors (one assertion call each) against reference slacks",
            "Lattice (19 configurations over all covered kinds) x all kernels of {-1,0,1}^n (n<=6; directed single-violation "
            "sets above) x eps {1e-6,1e-3}, 2-unit [feasible|offender] kernels in both orders; PWL, Linear, Categorical, KFL "
            "(function-level truth for sign-only deviations), RTL delegation: slack < -10 eps must raise "
            "InvalidArgumentError, all slacks >= 10 eps must return.",
            "weights exactly on a boundary are not judged",
            "3/C12"),
    "C17": (EX,
            "bounded exhaustive enumeration of (shape, seed) and prefitting-kernel pattern products through the real structure builders",
            "RTL: every multiset of input groups (<=6 inputs) x rank x lattice counts x seeds: rank, usage balance, "
            "determinism, monotone-slot wiring, output labels, monotone function on a grid; random ensemble: features 2-6 x "
            "rank x lattices x seeds; Crystals: real prefitting config/model x product of prefitting lattice kernel patterns.",
            "seed windows; Crystals prefitting kernels over a 3-7 letter pattern alphabet",
            "3/C17"),
    "C03": (MC,
            "explicit-state BFS (depth 3) over real Keras models: each transition is one real optimizer step or a "
            "rebuild-from-config; invariant evaluated in every reached state",
            "15 (21) premade/stacked models covering calibrated linear, lattice (hypercube/simplex/KFL), ensembles "
            "(explicit, random, RTL; average / linear combination; output calibration) with an increasing, a decreasing, "
            "an unconstrained-with-missing and a categorical feature with ordering pairs; actions: new-style SGD with lr "
            "0.1..1e4 (1e6), Adam, legacy SGD (per-variable interleaving), three losses incl. anti-monotone labels, two "
            "batches, rebuild; invariant = all ordered pairs along constrained features on the full input grid, "
            "categorical orderings, output bounds incl. missing values; histories replayed on fresh models.",
            "float32; tolerance 1e-4*max(1,|out|); fixed optimizer/loss/batch menu; states whose weights overflowed float32 "
            "(>1e8 with non-finite outputs) are skipped and counted",
            "3/C03"),
    "C11": (MC,
            "bounded exhaustive enumeration of constructor-argument products (config/JSON round trips) + histories with a "
            "serialize->restore inserted at every position",
            "34 classes with get_config x products of {default, 1-2 non-default} argument values: from_config(get_config()) "
            "directly and via JSON, equal configs, same variables, identical outputs / constraints / losses with copied "
            "weights; 7 models x {config+weights, h5, (keras, SavedModel)} x restore at every position of a 2-3 step "
            "history: final outputs equal to the uninterrupted history, restored variables feasible, seed-derived "
            "structures reproduced.",
            "argument products above the cap are reduced to all single+pairwise settings (reported in evidence notes)",
            "3/C11"),
    "C16": (EX,
            "bounded exhaustive enumeration of valid and invalid constructor cross-products with an independent validity predicate",
            "Lattice, PWLCalibration, Linear, CategoricalCalibration, KFL, RTL and premade configs over small domains: "
            "must-reject configurations raise ValueError at construction/build, accepted ones project all {-1,0,1}^n words "
            "(+images) and evaluate on a grid without raising and finitely; synonymous spellings give identical results.",
            "'either' where the documentation leaves validity open",
            "3/C16"),
    "C13": (EX,
            "bounded exhaustive enumeration of kernels x regularizer configurations against the literal docstring sums",
            "Lattice Laplacian/torsion on 7 (12) shapes x scalar/per-dimension amounts (with zeros) x all words of "
            "{-1,0,1}^n (n<=9) single and multi-unit; PWL Laplacian/Hessian/wrinkle rows 2-6 x cyclic; linearity in "
            "(l1,l2); vanishing clauses.",
            "float32 relative tolerance 2e-4",
            "3/C13"),
    "C14": (EX,
            "bounded exhaustive enumeration of parameter words x input grids for six pairs of representations (impl vs impl)",
            "KFL vs Lattice(dense kernel), pwl_calibration_fn vs PWLCalibration(derived keypoints/kernel), cdf_fn vs CDF, "
            "ParallelCombination vs column-wise layers, Aggregation vs per-row mean over all ragged length triples, RTL vs "
            "explicit gather of its recorded structure.",
            "float32 relative tolerance 2e-4; geometric-mean CDF excluded as the property states",
            "3/C14"),
    "C15": (EX,
            "bounded exhaustive enumeration of free-form parameter words (incl. +-50) x modes x input sets through "
            "pwl_calibration_fn / CDF / cdf_fn",
            "All output-parameter words over {-50,-1,0,1,50}^P x input-keypoint words over {-50,-2,0,2,50} for every "
            "mode/missing/units: bounded, monotone (all ordered input pairs), clamps, cyclic, missing; every documented "
            "parameter rank/broadcast form; CDF layer (through its own NonNeg constraint) and cdf_fn: in [0,1], "
            "non-decreasing per input on grids.",
            "float32; end-point clauses judged only for well-conditioned keypoint words (|logit|<=2)",
            "3/C15"),
    "C18": (EX,
            "bounded exhaustive enumeration of all value arrays (len<=5/6 over {0,1,2,5}) x weights x clips x defaults x "
            "num_keypoints x modes through compute_keypoints and helpers",
            "5460 arrays x weights {None, ones, non-constant words over {1,3}} x 7 clip modes x default {None,0} x "
            "num_keypoints 2..5 x {quantiles,uniform} x {mean,sum}: no error, strictly increasing, in range, ends, "
            "count rule, observed values, accepted by PWLCalibration; feature/label helpers.",
            "zero/negative example weights outside the alphabet",
            "3/C18"),
    "C19": (EX,
            "bounded exhaustive enumeration of zero patterns / kernel words, gradients via tf.GradientTape against "
            "autodiff of reference expressions and closed forms",
            "custom_reduce_prod on all vectors over {-2,0,.5,1,3}^k (k<=4) in 4 layouts/axes; KFL gradients w.r.t. kernel, "
            "scale, inputs vs plain-product expression; Lattice/PWL/Categorical kernel Jacobians equal reference "
            "interpolation weights for two kernels.",
            "float32; input gradients compared only at differentiable points",
            "3/C19"),
    "C20": (EX,
            "bounded exhaustive enumeration of Linear layer configurations x all kernel words x input "
            "grid against the clipped-affine reference; consequences on weights produced by the real constraint",
            "dims 1-3 x units 1-3 x every per-input bound pattern x bias on/off x ALL words of {-1,0,1}^n "
            "x grid of inputs inside/on/far outside the bounds; C06 configurations' constrained weights "
            "loaded into the real layer: monotone for all ordered grid pairs, dominance effects, weighted average.",
            "float32 relative tolerance 1e-4",
            "3/C20"),
}

NOT_YET = {}

# configuration axes added after the seeded-change campaign (DESIGN.md 8.2 / 8.5)
ADDED = {
    "C01": " Also layer.finalize_constraints() in the default strict mode and in the non-strict mode on assigned kernels; zero-valued bounds.",
    "C02": " Also inputs more than one full cell outside the range, and the same call traced in graph mode with an unknown batch size.",
    "C03": " 22 quick models incl. 4-bucket diamond category orders, one-sided / zero-excluding bounds, lattices without any shape constraint (all-vertices and Kronecker-factored).",
    "C04": " Also clamps on non-monotonic calibrators (must be refused or honoured).",
    "C05": " Also a sentinel together with an is_missing tensor, keypoint vectors at scales 1e-7 and 1e6, logits of +-70, frozen layers re-assigned between calls, the list/tensor output form of split_outputs and graph-mode twins.",
    "C06": " Also 4-input configurations carrying both dominance kinds.",
    "C07": " Also list-form inputs and bounds on the same side of zero.",
    "C10": " Also rank 8/9 lattices and the default None spelling of unset constraints.",
    "C11": " Also models rebuilt from a trained model's config (equal config, equal regularization losses), per-feature + model-level regularizers, several RTL regularizers through JSON, random ensembles re-materialised from their config under a different global NumPy state.",
    "C12": " Also PWL layers whose call() differs from the keypoint outputs (sentinel on a keypoint, tensor-only missing values, split outputs).",
    "C13": " Also every zero/non-zero pattern of per-dimension amounts and the layers' kernel_regularizer tuple spelling read back through layer.losses.",
    "C15": " Also a second keypoint range with input_min > 0 and the CDF layer's shared (batch, 1) input form.",
    "C16": " Also even and larger sizes, multi-unit layers with tuple/list lattice_sizes for every constraint family and regularizer, simplex and clip_inputs=False twins, graph-mode calls with unknown batch size, multi-unit learned-keypoint PWL.",
    "C17": " Also full RTL builds with Kronecker-factored sub-lattices and the same structures built in processes with different PYTHONHASHSEED.",
    "C18": " Also the same data held in an integer array.",
    "C19": " Also factors of magnitude 3e-7 / 1e-12 / 1e3 next to exact zeros, keypoints not starting at 0 and learned keypoints.",
    "C20": " Also inputs up to +-1e6 on every side, and per configuration the call traced with an unknown batch size, batch-of-one calls and a float64 layer.",
}


def main():
  props = [json.loads(l) for l in open(os.path.join(HERE, "properties.jsonl"))]
  checks, na = [], []
  for p in props:
    pid = p["id"]
    if pid in CHECKS:
      cat, tech, text, note, ref = CHECKS[pid]
      text = text + ADDED.get(pid, "")
      checks.append(dict(
          property_id=pid,
          quick_cmd="./check %s --tier quick" % pid,
          thorough_cmd="./check %s --tier thorough" % pid,
          evidence_file="evidence/%s.json" % pid,
          replay_cmd_template="./check %s --replay {path}" % pid,
          engine="vt",
          level_claimed=dict(category=cat, text=text, design_ref="DESIGN.md section " + ref),
          level_note=note,
          technique=tech))
    else:
      na.append(dict(property_id=pid, reason=NOT_YET.get(
          pid, "check not built yet in this session (planned: see DESIGN.md section 3/%s); "
          "the technique applies" % pid)))
  man = dict(
      version=1,
      setup_cmd="cd /verif && chmod +x check && /venv/bin/python -c \"import numpy, scipy\" && "
                "PYTHONPATH=/verif /venv/bin/python -m compileall -q vt >/dev/null",
      hooks=dict(
          guard="TENSORFLOW_LATTICE_VERIF",
          enable="no source hooks are needed: checks import tensorflow_lattice from /repo's working "
                 "tree in a fresh process (./check exports TENSORFLOW_LATTICE_VERIF=1, nothing reads it)",
          baseline_off_cmd="cd /repo && /venv/bin/python -m pytest -ra -q -p no:cacheprovider "
                           "--timeout=900 --continue-on-collection-errors",
          source_commits=[],
          add_only=True),
      engines=[dict(
          name="vt", path="vt/",
          serves_properties=[c["property_id"] for c in checks],
          kind_free_text="hand-written bounded exhaustive explorer for Python: E1 product-space "
                         "enumerator with unit-axis packing and E2 explicit-state BFS over real "
                         "transition functions; NumPy float64 reference models")],
      checks=checks,
      not_applicable=na,
      notes="All checks drive the real code of /repo (or $VT_REPO for the mutation driver). "
            "Known genuine defects are listed in KNOWN_FINDINGS.txt; see DESIGN.md.")
  with open(os.path.join(HERE, "MANIFEST.json"), "w") as fh:
    json.dump(man, fh, indent=1)
  print("MANIFEST.json: %d checks, %d not_applicable" % (len(checks), len(na)))


if __name__ == "__main__":
  main()
