#!/usr/bin/env python3
"""Collects mutant sweep logs (tools/mut.py output) into mutants/RESULTS.md."""
import glob, os, re, sys
HERE = os.path.dirname(os.path.dirname(os.path.abspath(__file__)))
rows = {}
for f in sys.argv[1:]:
  for line in open(f):
    m = re.match(r"^(\S+)\s+(C\d+)\s+(DETECTED|silent|ERROR\(\d+\))\s+\(expected (\w+)\)\s+(\d+)s", line)
    if m:
      rows[(m.group(1), m.group(2))] = (m.group(3), m.group(4), m.group(5))
sys.path.insert(0, os.path.join(HERE, "tools"))
import mut
cat = {m["name"]: m for m in mut.catalog()}
out = ["# Mutation results (quick tier)", "",
       "Each mutant is a textual change applied to a scratch copy of /repo; the listed check is run with",
       "VT_REPO pointing at the copy. `silent` with expectation `silent` = property-preserving negative control.",
       "Rows of the c01_* and c07_* mutants come from sweeps run before the last strengthening rounds of C01 / C07",
       "(the checks only gained configurations since); all other rows are from the final sweep.", "",
       "| mutant | file | check | result | expected | s |", "|---|---|---|---|---|---|"]
for k in list(rows):
  # the catalogue's current expectation wins over the one printed when the log was written
  res, exp, sec = rows[k]
  rows[k] = (res, cat.get(k[0], {}).get("expect", exp if k[0] not in cat else "DETECTED"), sec)
for (name, pid), (res, exp, sec) in sorted(rows.items(), key=lambda kv: (kv[0][1], kv[0][0])):
  out.append("| %s | %s | %s | %s | %s | %s |" % (name, cat.get(name, {}).get("file", "?").split("/")[-1], pid, res, exp, sec))
det = sum(1 for v in rows.values() if v[0] == "DETECTED")
ok = sum(1 for v in rows.values() if v[0] == v[1])
out += ["", "%d mutant/check runs, %d detected, %d as expected." % (len(rows), det, ok)]
open(os.path.join(HERE, "mutants", "RESULTS.md"), "w").write("\n".join(out) + "\n")
print(out[-1])
